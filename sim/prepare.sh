#!/bin/bash
# prepare.sh <scratch-dir> [yield]
# Builds, inside <scratch-dir> (outside /repo and /verif), an instrumented copy of the CURRENT working tree of
# /repo plus the module-cache sources of go-openapi/spec and go-openapi/swag. Exit 2 on any trouble.
set -u
W="$1"; YIELD="${2:-yield}"
REPO="${VERIF_REPO:-/repo}"
VERIF="${VERIF_HOME:-/verif}"
export GOFLAGS=-mod=mod GOPROXY=off GOSUMDB=off GOTOOLCHAIN=local
MODCACHE="$(go env GOMODCACHE)"
SPEC_SRC="$MODCACHE/github.com/go-openapi/spec@v0.21.0"
SWAG_SRC="$MODCACHE/github.com/go-openapi/swag@v0.23.1"

die() { echo "prepare: $*" >&2; exit 2; }

[ -d "$SPEC_SRC" ] || die "missing $SPEC_SRC"
[ -d "$SWAG_SRC" ] || die "missing $SWAG_SRC"
[ -x "$VERIF/bin/siminstr" ] || (cd "$VERIF" && go build -o bin/siminstr ./sim/siminstr) || die "cannot build siminstr"

mkdir -p "$W/analysis" "$W/spec" "$W/swag" || die "mkdir"
# analysis: non-test Go sources of the root module only (analysis_test is a separate module; fixtures not needed)
rsync -a --prune-empty-dirs --exclude='/analysis_test/' --exclude='/fixtures/' --exclude='/.git/' --exclude='*_test.go' \
   --include='*/' --include='*.go' --include='/go.mod' --include='/go.sum' --exclude='*' "$REPO/" "$W/analysis/" || die "copy analysis"
# the repository requires these exact versions; anything else means the pinned dependency changed
grep -q 'github.com/go-openapi/spec v0.21.0' "$W/analysis/go.mod" || die "go.mod no longer requires spec v0.21.0"
grep -q 'github.com/go-openapi/swag v0.23.1' "$W/analysis/go.mod" || die "go.mod no longer requires swag v0.23.1"
rsync -a --exclude='*_test.go' --exclude='/fixtures/' "$SPEC_SRC/" "$W/spec/" || die "copy spec"
rsync -a --exclude='*_test.go' --exclude='/fixtures/' "$SWAG_SRC/" "$W/swag/" || die "copy swag"
chmod -R u+w "$W/spec" "$W/swag"

cat >> "$W/analysis/go.mod" <<EOF

require simrt v0.0.0
replace simrt => $VERIF/sim/simrt
replace github.com/go-openapi/spec => ../spec
replace github.com/go-openapi/swag => ../swag
EOF

YARG=""
[ "$YIELD" = "yield" ] && YARG="-yield github.com/go-openapi/analysis"
"$VERIF/bin/siminstr" -dir "$W/analysis" -out "$W/sites.json" $YARG \
   github.com/go-openapi/analysis/... github.com/go-openapi/spec github.com/go-openapi/swag >&2 || die "instrumenter refused"
exit 0
