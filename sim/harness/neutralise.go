package main

import (
	"fmt"
	"sort"
	"strings"
)

// Neutralisers: counterfactual transformations used to attribute a failing case to a KNOWN finding.
// A known finding says "the code under test fails clause X on inputs with feature F" (e.g. names that need
// URL or JSON-pointer escaping; the KeepNames option). A failing case is attributed to that finding only if
// removing F from this very case (and nothing else) makes the failure disappear; if the same clause still
// fails after neutralisation, the failure has another cause and is reported as a VIOLATION. This keeps a
// known finding from hiding a different violation of the same property.

func neutralise(name string, c *Case) (*Case, bool) {
	switch name {
	case "plain-names":
		return neutraliseRename(c, isExoticName, true)
	case "standard-status-codes":
		return neutraliseStatusCodes(c)
	case "no-punctuation-only-names":
		return neutraliseRename(c, func(n string) bool { return normName(n) == "" }, true)
	case "no-oaigen-names":
		return neutraliseRename(c, func(n string) bool { return strings.Contains(n, "OAIGen") }, false)
	case "no-keepnames":
		if !c.Opts.KeepNames {
			return nil, false
		}
		d := cloneCase(c)
		d.Opts.KeepNames = false
		return d, true
	case "no-path-to-path-refs":
		return neutralisePathToPath(c)
	case "plain-names+no-keepnames":
		d, ch1 := neutraliseRename(c, isExoticName, true)
		if !ch1 {
			d = cloneCase(c)
		}
		ch2 := d.Opts.KeepNames
		d.Opts.KeepNames = false
		return d, ch1 || ch2
	}
	panic(infraError{"unknown neutraliser " + name})
}

// isExoticName selects the names the open finding "names needing escaping" is about. After the repairs a003d7e and
// bd6abef, names with spaces, unicode, '?', brackets and braces flatten correctly on the unchanged tree (measured per
// name class); what still fails are names containing a JSON-pointer or URI-fragment metacharacter. The neutraliser is
// deliberately this narrow, so that a violation that only shows on, say, unicode names is NOT attributed to it.
func isExoticName(n string) bool { return strings.ContainsAny(n, "#/~%") }

// neutraliseRename consistently renames, in every document of the bundle, the definition names (and, with
// props, the property names) selected by pred to fresh plain identifiers, rewriting $refs, required lists and
// discriminators accordingly.
func neutraliseRename(c *Case, pred func(string) bool, props bool) (*Case, bool) {
	if len(c.Disk) == 0 {
		return nil, false
	}
	docs := map[string]any{}
	for p, s := range c.Disk {
		v, err := parseJSON([]byte(s))
		if err != nil {
			continue
		}
		docs[p] = v
	}
	// collect names
	all := map[string]bool{}
	exotic := map[string]bool{}
	var collect func(v any, parentKey string, depth int)
	collect = func(v any, parentKey string, depth int) {
		switch x := v.(type) {
		case map[string]any:
			isNameMap := (props && parentKey == "properties") || (parentKey == "definitions")
			for k, e := range x {
				if parentKey == "properties" || parentKey == "definitions" {
					all[k] = true
				}
				if isNameMap {
					if pred(k) {
						exotic[k] = true
					}
				}
				collect(e, k, depth+1)
			}
		case []any:
			for _, e := range x {
				collect(e, parentKey, depth+1)
			}
		}
	}
	for _, d := range docs {
		collect(d, "", 0)
	}
	if len(exotic) == 0 {
		return nil, false
	}
	names := make([]string, 0, len(exotic))
	for n := range exotic {
		names = append(names, n)
	}
	sort.Strings(names)
	mapping := map[string]string{}
	i := 0
	for _, n := range names {
		for {
			cand := fmt.Sprintf("zq%dn", i)
			i++
			if !all[cand] {
				mapping[n] = cand
				all[cand] = true
				break
			}
		}
	}
	var rewrite func(v any, parentKey string) any
	rewrite = func(v any, parentKey string) any {
		switch x := v.(type) {
		case map[string]any:
			out := make(map[string]any, len(x))
			isNameMap := (props && parentKey == "properties") || parentKey == "definitions"
			for k, e := range x {
				nk := k
				if isNameMap {
					if m, ok := mapping[k]; ok {
						nk = m
					}
				}
				switch {
				case k == "$ref":
					if s, ok := e.(string); ok {
						out[nk] = rewriteRef(s, mapping, props)
						continue
					}
				case k == "required":
					if arr, ok := e.([]any); ok {
						na := make([]any, len(arr))
						for i, a := range arr {
							na[i] = a
							if s, ok := a.(string); ok {
								if m, ok := mapping[s]; ok {
									na[i] = m
								}
							}
						}
						out[nk] = na
						continue
					}
				case k == "discriminator":
					if s, ok := e.(string); ok {
						if m, ok := mapping[s]; ok {
							out[nk] = m
							continue
						}
					}
				}
				out[nk] = rewrite(e, k)
			}
			return out
		case []any:
			out := make([]any, len(x))
			for i, e := range x {
				out[i] = rewrite(e, parentKey)
			}
			return out
		}
		return v
	}
	d := cloneCase(c)
	for p, doc := range docs {
		d.Disk[p] = string(canonJSON(rewrite(doc, "")))
	}
	return d, true
}

func rewriteRef(ref string, mapping map[string]string, props bool) string {
	docPart, toks, hasFrag, err := splitRef(ref)
	if err != nil || !hasFrag {
		return ref
	}
	changed := false
	for i := 1; i < len(toks); i++ {
		if toks[i-1] == "definitions" || (props && toks[i-1] == "properties") {
			if m, ok := mapping[toks[i]]; ok {
				toks[i] = m
				changed = true
			}
		}
	}
	if !changed {
		return ref
	}
	return mkRef(docPart, toks...)
}

// neutralisePathToPath removes path entries that are a $ref to another entry of `paths` of the same document
// (such an alias duplicates every operation, operationId included).
func neutralisePathToPath(c *Case) (*Case, bool) {
	if c.Disk == nil {
		return nil, false
	}
	v, err := parseJSON([]byte(c.Disk[c.Root]))
	if err != nil {
		return nil, false
	}
	root, _ := asObj(v)
	paths, _ := asObj(root["paths"])
	changed := false
	for _, p := range sortedKeys(paths) {
		if r, ok := refOf(paths[p]); ok {
			docPart, toks, _, err := splitRef(r)
			if err == nil && docPart == "" && len(toks) == 2 && toks[0] == "paths" {
				delete(paths, p)
				changed = true
			}
		}
	}
	if !changed {
		return nil, false
	}
	d := cloneCase(c)
	d.Disk[c.Root] = string(canonJSON(root))
	return d, true
}

// neutraliseStatusCodes replaces, in every responses object of every document, the status codes for which
// net/http has no reason phrase (e.g. 306, 419) by standard codes not yet used in that responses object.
func neutraliseStatusCodes(c *Case) (*Case, bool) {
	if c.Disk == nil {
		return nil, false
	}
	changed := false
	spare := []string{"202", "203", "206", "301", "302", "400", "401", "403", "409", "410"}
	var walk func(v any)
	walk = func(v any) {
		switch x := v.(type) {
		case map[string]any:
			if resps, ok := asObj(x["responses"]); ok {
				for _, code := range sortedKeys(resps) {
					if code != "306" && code != "419" && code != "499" && code != "420" {
						continue
					}
					for _, sp := range spare {
						if _, used := resps[sp]; !used {
							resps[sp] = resps[code]
							delete(resps, code)
							changed = true
							break
						}
					}
				}
			}
			for _, k := range sortedKeys(x) {
				walk(x[k])
			}
		case []any:
			for _, e := range x {
				walk(e)
			}
		}
	}
	d := cloneCase(c)
	for p, sdoc := range c.Disk {
		v, err := parseJSON([]byte(sdoc))
		if err != nil {
			continue
		}
		walk(v)
		d.Disk[p] = string(canonJSON(v))
	}
	if !changed {
		return nil, false
	}
	return d, true
}
