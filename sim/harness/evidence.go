package main

import (
	"encoding/json"
	"fmt"
	"os"
	"path/filepath"
	"sort"
	"strings"
	"time"
)

var levelOf = map[string]string{"C09": "fault_enumeration"}

var ruleOf = map[string]string{
	"flatten":  "cases = bundles drawn from the generator of class W (seeded, swarm flags per construct class) x one applicable option set x a list of schedules (canonical + seeded perturbations of every map iteration in analysis+spec+swag [+ JSON key-order permutations of the files on the simulated disk]); one evaluation = one Flatten execution (second passes and fresh analyses count too). A run is NON-TRIVIAL when Flatten succeeded, its output differs from the normal form of the input, and at least one perturbed map iteration had >= 2 keys (or the files were served with permuted key order); two runs are DISTINCT when (root document hash, option set, interleaving fingerprint = hash of the order of every >=2-key map iteration and every load) differ. distinct_nontrivial = size of that set.",
	"failsafe": "cases = bundles from W and W+ (dangling refs, missing files, deep/nested/cyclic pointers, back-references, colliding imports with refs, container-only recursion, odd holders) x option set x API (Flatten/New/Schema); first a fault-free pass counting the loads L of this (bundle, options, schedule), then EVERY k in 1..L x every fault kind (exhaustive per sampled input). NON-TRIVIAL = a fault actually fired at the loader seam, or the bundle contains a W+ construct; DISTINCT by (bundle hash, options, api, k, kind).",
	"mixin":    "cases = a primary and 0..3 mixins over small shared key pools (collisions frequent), folded by Mixin in one call or in successive calls, under canonical and perturbed map schedules; one evaluation = one Mixin history. NON-TRIVIAL = at least one key collision or one operation-id collision occurred and a perturbed map iteration had >= 2 keys; DISTINCT by (documents hash, split mode, interleaving fingerprint).",
	"readers":  "cases = a document (unflattened or flattened) analyzed once, N=2..4 reader goroutines each with a query program over all public methods, one pre-drawn interleaving decision list; one evaluation = one interleaved run (plus its sequential reference run). NON-TRIVIAL = at least one context switch happened inside a getter; DISTINCT by (document hash, programs hash, schedule trace).",
}

func kindOfProp(p string) string {
	switch p {
	case "C09":
		return "failsafe"
	case "C16":
		return "readers"
	case "C17", "C18":
		return "mixin"
	}
	return "flatten"
}

func shrinkSample(c *Case) any {
	b, _ := json.Marshal(c)
	var m map[string]any
	json.Unmarshal(b, &m)
	if d, ok := m["disk"].(map[string]any); ok {
		for k, v := range d {
			if s, ok := v.(string); ok {
				d[k] = truncate(s, 1200)
			}
		}
	}
	for _, k := range []string{"primary", "doc"} {
		if s, ok := m[k].(string); ok {
			m[k] = truncate(s, 1200)
		}
	}
	if ms, ok := m["mixins"].([]any); ok {
		for i, v := range ms {
			if s, ok := v.(string); ok {
				ms[i] = truncate(s, 800)
			}
		}
	}
	if sc, ok := m["schedules"].([]any); ok && len(sc) > 4 {
		m["schedules"] = append(sc[:4:4], "…("+itoa(len(sc)-4)+" more)")
	}
	return m
}

func itoa(n int) string {
	b, _ := json.Marshal(n)
	return string(b)
}

func writeEvidence(cfg *driverCfg, agg *aggregate, ts tierSpec, searchWall, wall time.Duration, violations int, knownHit map[string]int) error {
	level := levelOf[cfg.prop]
	if level == "" {
		level = "exploration"
	}
	kind := kindOfProp(cfg.prop)
	cov := map[string]any{}
	cov["evaluations"] = agg.evals
	cov["distinct_nontrivial"] = len(agg.distinct)
	cov["rule"] = ruleOf[kind]
	var samples []any
	for _, c := range agg.samples {
		samples = append(samples, shrinkSample(c))
	}
	if samples == nil {
		samples = []any{}
	}
	cov["samples"] = samples
	cov["cases"] = agg.cases
	cov["cases_planned"] = ts.cases
	switch {
	case agg.cases >= ts.cases:
		cov["stopped_by"] = "all planned cases explored"
	case searchWall >= ts.wall:
		cov["stopped_by"] = "wall-clock cap of the tier (" + ts.wall.String() + ")"
	default:
		cov["stopped_by"] = fmt.Sprintf("%d failing cases awaiting attribution (cap of the tier; on the unchanged tree they are known findings, see known_findings_hit)", len(agg.fails))
	}
	cov["cases_nontrivial"] = agg.nontrivial
	hours := searchWall.Hours()
	if hours > 0 {
		cov["runs_per_hour"] = int64(float64(agg.evals) / hours)
		cov["seeds_per_hour"] = int64(float64(agg.cases) / hours)
	}
	cov["seeds"] = map[string]any{"verif_seed": cfg.seed, "case_seeds": "mix(mix(VERIF_SEED, hash(property)), index+1), index in [0,cases)"}
	cov["simulated_time"] = "none: the code under test has no clock; the logical clock counts intercepted map-iteration steps, yields and loads"
	cov["logical_steps"] = agg.steps
	cov["max_steps_single_run"] = agg.maxSteps
	cov["step_budget"] = defaultBudget
	cov["loads"] = agg.loads
	cov["distinct_interleavings"] = len(agg.distinct)
	cov["distinct_outputs"] = len(agg.outputs)
	cov["worker_crashes"] = agg.crashes
	faults := map[string]int64{}
	probes := map[string]int64{}
	opt := map[string]int64{}
	for k, n := range agg.counters {
		switch {
		case strings.HasPrefix(k, "fault_fired_"):
			faults[strings.TrimPrefix(k, "fault_fired_")] = n
		case strings.HasPrefix(k, "optset_"):
			opt[strings.TrimPrefix(k, "optset_")] = n
		default:
			probes[k] = n
		}
	}
	cov["faults_fired"] = faults
	cov["option_sets"] = opt
	cov["probes"] = probes
	cov["construct_classes"] = agg.features
	// per-site perturbation counts; sites never perturbed with >= 2 keys in this batch are flagged
	cov["sites_perturbed"] = agg.sitePert
	var never []string
	for _, s := range sites.MapSites {
		if strings.HasPrefix(s, "analysis/") && agg.sitePert[s] == 0 {
			never = append(never, s)
		}
	}
	sort.Strings(never)
	cov["analysis_sites_never_perturbed_with_2plus_keys"] = never
	kh := map[string]int{}
	for k, n := range knownHit {
		kh[k] = n
	}
	cov["known_findings_hit"] = kh
	cov["components"] = map[string]string{
		"go-openapi/analysis":                                "real (current /repo working tree), source-instrumented: map iteration, yields",
		"go-openapi/spec, go-openapi/swag":                   "real (module cache), source-instrumented: map iteration",
		"jsonpointer, jsonreference, encoding/json, reflect": "real, untouched",
		"file system / HTTP behind spec.PathLoader":          "stub: simdisk (in-memory tree, fault injection by load sequence number)",
		"Go runtime random map iteration start":              "replaced by the seeded permutation scheduler (simrt)",
		"goroutine scheduler":                                map[bool]string{true: "overridden by token passing (real goroutines, -race)", false: "not involved (single goroutine)"}[kind == "readers"],
		"clock":                                              "none exists in the code under test; logical step counter",
	}
	ev := map[string]any{
		"property_id": cfg.prop,
		"tier":        cfg.tier,
		"seed":        int64(cfg.seed & 0x7fffffffffffffff),
		"level":       level,
		"coverage":    cov,
		"assumptions": []string{
			"spec model (un)marshalling is the normal form used by the reference oracles (trusted base)",
			"the source-to-source rewrite of map iteration preserves semantics (validated by running the repository test-suite on the instrumented copy under canonical and perturbed schedules: sim/selftest.sh)",
			"all permutations of a map's keys are legal iteration orders (Go spec); the gc runtime produces only a subset",
			"sampling: a clean batch is evidence, not proof",
		},
		"wall_s":     wall.Seconds(),
		"violations": violations,
	}
	b, err := json.MarshalIndent(ev, "", " ")
	if err != nil {
		return err
	}
	if cfg.evidence == "" {
		return nil
	}
	os.MkdirAll(filepath.Dir(cfg.evidence), 0o755)
	return os.WriteFile(cfg.evidence, b, 0o644)
}
