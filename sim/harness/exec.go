package main

import (
	_ "embed"
	"encoding/json"
	"errors"
	"fmt"
	"os"
	"regexp"
	"runtime/debug"
	"sort"
	"strings"

	"simrt"

	"github.com/go-openapi/analysis"
	"github.com/go-openapi/spec"
)

//go:embed sites.json
var sitesJSON []byte

type siteTab struct {
	MapSites   []string `json:"map_sites"`
	YieldSites []string `json:"yield_sites"`
}

var sites siteTab
var siteIndex = map[string]int{}

func init() {
	if err := json.Unmarshal(sitesJSON, &sites); err != nil {
		panic(err)
	}
	for i, s := range sites.MapSites {
		siteIndex[s] = i
	}
}

var policyNames = []string{"canonical", "reverse", "rotate", "shuffle"}

func policyByName(s string) int8 {
	for i, n := range policyNames {
		if n == s {
			return int8(i)
		}
	}
	return 0
}

const defaultBudget = 3_000_000

func (s Schedule) config(budget int64) (simrt.Config, error) {
	c := simrt.Config{Seed: s.Seed, PerturbP: s.PerturbP, InsertMode: s.InsertMode, Budget: budget}
	if s.Sites != nil || s.Explicit {
		c.Explicit = make([]int8, len(sites.MapSites))
		for name, pol := range s.Sites {
			i, ok := siteIndex[name]
			if !ok {
				// a replay file naming a site that no longer exists (code moved): ignore that site, the replay then
				// simply does not reproduce
				continue
			}
			c.Explicit[i] = policyByName(pol)
		}
	}
	return c, nil
}

// ---------------------------------------------------------------------------------------------
// simdisk: the document store behind spec.PathLoader

type loadEvent struct {
	K     int    `json:"k"`
	Path  string `json:"path"`
	Fault string `json:"fault,omitempty"`
}

type simDisk struct {
	files   map[string]string
	faults  []Fault
	keyPerm uint64
	k       int
	log     []loadEvent
	fired   map[string]int
	outside int
}

var curDisk *simDisk

var errENOENT = errors.New("simdisk: no such file or directory")
var errEIO = errors.New("simdisk: input/output error")

func installLoader() {
	spec.PathLoader = func(p string) (json.RawMessage, error) {
		d := curDisk
		if d == nil {
			return nil, fmt.Errorf("simdisk: load of %q outside a simulated run", p)
		}
		return d.load(p)
	}
}

func normLoadPath(p string) string {
	p = strings.TrimPrefix(p, "file://")
	return p
}

func (d *simDisk) content(p string) (string, bool) {
	s, ok := d.files[p]
	if !ok {
		return "", false
	}
	if d.keyPerm != 0 {
		if v, err := parseJSON([]byte(s)); err == nil {
			return string(marshalPermuted(v, d.keyPerm)), true
		}
	}
	return s, true
}

func (d *simDisk) load(raw string) (json.RawMessage, error) {
	p := normLoadPath(raw)
	d.k++
	k := d.k
	simrt.LogEvent(1, hashStr(p))
	ev := loadEvent{K: k, Path: p}
	defer func() { d.log = append(d.log, ev) }()
	for _, f := range d.faults {
		hit := false
		switch f.Kind {
		case "enoent", "eio", "short", "torn":
			hit = f.K == k
		case "enoent-from":
			hit = k >= f.K
		case "dead":
			hit = f.Path == p
		}
		if !hit {
			continue
		}
		ev.Fault = f.Kind
		d.fired[f.Kind]++
		switch f.Kind {
		case "enoent", "enoent-from", "dead":
			return nil, fmt.Errorf("open %s: %w", p, errENOENT)
		case "eio":
			return nil, fmt.Errorf("read %s: %w", p, errEIO)
		case "short":
			s, ok := d.content(p)
			if !ok {
				return nil, fmt.Errorf("open %s: %w", p, errENOENT)
			}
			n := f.N
			if n >= len(s) {
				n = len(s) - 1
			}
			if n < 0 {
				n = 0
			}
			return json.RawMessage(s[:n]), nil
		case "torn":
			s, ok := d.content(p)
			if !ok {
				return nil, fmt.Errorf("open %s: %w", p, errENOENT)
			}
			b := []byte(s)
			// replace one structural character so that the text is no longer JSON
			idx := -1
			cnt := 0
			for i, c := range b {
				if c == ':' || c == '{' || c == '}' {
					if cnt == f.N%17 {
						idx = i
						break
					}
					cnt++
				}
			}
			if idx < 0 {
				idx = 0
			}
			b[idx] = '\x01'
			return json.RawMessage(b), nil
		}
	}
	s, ok := d.content(p)
	if !ok {
		d.outside++
		ev.Fault = "absent"
		return nil, fmt.Errorf("open %s: %w", p, errENOENT)
	}
	return json.RawMessage(s), nil
}

// ---------------------------------------------------------------------------------------------
// one Flatten execution

type flatObs struct {
	Err        string
	Failed     bool
	Panic      string
	Overrun    bool
	LoadErr    string // the root document itself could not be loaded into the spec model
	Out        []byte
	Stats      simrt.Stats
	Loads      []loadEvent
	Fired      map[string]int
	Doc        *spec.Swagger
	An         *analysis.Spec
	InputBytes []byte
}

func sitePertMap(st simrt.Stats, into map[string]int64) {
	for i, n := range st.SitePerturbed {
		if n > 0 && i < len(sites.MapSites) {
			into[sites.MapSites[i]] += int64(n)
		}
	}
}

func toFlattenOpts(o FlatOpts, an *analysis.Spec, base string) analysis.FlattenOpts {
	return analysis.FlattenOpts{Spec: an, BasePath: base, Minimal: o.Minimal, Expand: o.Expand,
		RemoveUnused: o.RemoveUnused, KeepNames: o.KeepNames, ContinueOnError: o.ContinueOnError}
}

func budgetOf(c *Case) int64 {
	if c.StepBudget > 0 {
		return c.StepBudget
	}
	return defaultBudget
}

// lastOverrun describes the most recent budget overrun (steps or call depth) for failure details.
var lastOverrun string

// guarded runs f under the current simulated run, converting panics into observations.
func guarded(f func()) (panicMsg string, overrun bool) {
	defer func() {
		if r := recover(); r != nil {
			if be, ok := r.(simrt.BudgetExceeded); ok {
				overrun = true
				lastOverrun = fmt.Sprintf("more than %d logical steps", be.Steps-1)
				if be.Depth > 0 {
					lastOverrun = fmt.Sprintf("call depth %d of instrumented functions (unbounded recursion)", be.Depth)
				}
				return
			}
			if ie, ok := r.(infraError); ok {
				panic(ie)
			}
			panicMsg = fmt.Sprintf("%s\n%s", reHexAddr.ReplaceAllString(fmt.Sprint(r), "0x…"), trimStack(debug.Stack()))
		}
	}()
	f()
	return
}

var reHexAddr = regexp.MustCompile(`0x[0-9a-f]{6,}\??`)

func trimStack(b []byte) string {
	// addresses differ from process to process: a replayed violation must print the same detail
	lines := strings.Split(reHexAddr.ReplaceAllString(string(b), "0x…"), "\n")
	var keep []string
	for _, l := range lines {
		if strings.Contains(l, "go-openapi") || strings.Contains(l, "panic") {
			keep = append(keep, strings.TrimSpace(l))
		}
		if len(keep) > 14 {
			break
		}
	}
	return strings.Join(keep, " | ")
}

func runFlatten(c *Case, sched Schedule, faults []Fault, files map[string]string) *flatObs {
	if files == nil {
		files = c.Disk
	}
	obs := &flatObs{}
	disk := &simDisk{files: files, faults: faults, keyPerm: sched.KeyPerm, fired: map[string]int{}}
	rootBytes, ok := disk.content(c.Root)
	if !ok {
		panic(infraError{"case has no root document " + c.Root})
	}
	obs.InputBytes = []byte(rootBytes)
	cfg, _ := sched.config(budgetOf(c))
	curDisk = disk
	simrt.Begin(cfg)
	obs.Panic, obs.Overrun = guarded(func() {
		doc := new(spec.Swagger)
		if err := json.Unmarshal([]byte(rootBytes), doc); err != nil {
			obs.LoadErr = err.Error()
			return
		}
		an := analysis.New(doc)
		obs.Doc, obs.An = doc, an
		if c.Property == "C10" && sched.Seed%2 == 0 {
			// a caller typically analyzes, queries, flattens and keeps querying the same analyzer: exercise every getter
			// once BEFORE the rewrite, so that anything a getter memoises is there to go stale
			for _, call := range allCalls(doc) {
				invoke(an, doc, call)
			}
		}
		if err := analysis.Flatten(toFlattenOpts(c.Opts, an, c.Root)); err != nil {
			obs.Failed = true
			obs.Err = err.Error()
			return
		}
		out, err := json.Marshal(doc)
		if err != nil {
			obs.Failed = true
			obs.Err = "marshal: " + err.Error()
			return
		}
		obs.Out = out
	})
	obs.Stats = simrt.End()
	curDisk = nil
	obs.Loads = disk.log
	obs.Fired = disk.fired
	return obs
}

func (o *flatObs) ok() bool {
	return !o.Failed && o.Panic == "" && !o.Overrun && o.LoadErr == "" && o.Out != nil
}

func (o *flatObs) status() string {
	switch {
	case o.Overrun:
		return "step-budget-overrun"
	case o.Panic != "":
		return "panic: " + truncate(o.Panic, 600)
	case o.LoadErr != "":
		return "root not loadable: " + o.LoadErr
	case o.Failed:
		return "error: " + truncate(o.Err, 400)
	}
	return "ok"
}

func addObs(v *Verdict, o *flatObs) {
	v.Evals++
	v.Steps += o.Stats.Steps
	if o.Stats.Steps > v.MaxSteps {
		v.MaxSteps = o.Stats.Steps
	}
	v.Loads += int64(len(o.Loads))
	v.count("map_visits", o.Stats.MapVisits)
	v.count("perturbed_visits_ge2", o.Stats.Perturbed2)
	v.count("insert_during_range_taken", o.Stats.InsertTaken)
	v.count("insert_during_range_skipped", o.Stats.InsertSkipped)
	v.count("delete_during_range_hit", o.Stats.DeleteHit)
	if v.SitePert == nil {
		v.SitePert = map[string]int64{}
	}
	sitePertMap(o.Stats, v.SitePert)
	for k, n := range o.Fired {
		v.count("fault_fired_"+k, int64(n))
	}
}

// crashSig gives a stable signature for a panic: the innermost frame of the code under test (analysis first,
// then its dependencies), without arguments.
func crashSig(p string) string {
	parts := strings.Split(strings.ReplaceAll(p, "\n", " | "), " | ")
	frame := func(l string) string {
		// "pkg.(*T).method(0xc000..., {...})" -> "pkg.(*T).method"
		if i := strings.LastIndex(l, "("); i > 0 {
			l = l[:i]
		}
		return strings.TrimPrefix(l, "github.com/go-openapi/")
	}
	isFrame := func(l string) bool {
		return strings.HasPrefix(l, "github.com/") && strings.Contains(l, "(") && !strings.Contains(l, ".go:")
	}
	for _, l := range parts {
		if strings.HasPrefix(l, "github.com/go-openapi/analysis") && isFrame(l) {
			return frame(l)
		}
	}
	for _, l := range parts {
		if isFrame(l) {
			return frame(l)
		}
	}
	return "unknown-frame"
}

func sortedStrings(m map[string]bool) []string {
	var out []string
	for k, v := range m {
		if v {
			out = append(out, k)
		}
	}
	sort.Strings(out)
	return out
}

func writeFileAtomic(p string, b []byte) error {
	tmp := p + ".tmp"
	if err := os.WriteFile(tmp, b, 0o644); err != nil {
		return err
	}
	return os.Rename(tmp, p)
}
