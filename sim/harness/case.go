package main

// A Case is an explicit, self-contained description of one simulated execution (or a small family of
// executions of the same input under several schedules). Replay files are Cases: they do not depend on the
// generator's version.

type FlatOpts struct {
	Minimal         bool `json:"Minimal"`
	Expand          bool `json:"Expand"`
	RemoveUnused    bool `json:"RemoveUnused"`
	KeepNames       bool `json:"KeepNames"`
	ContinueOnError bool `json:"ContinueOnError,omitempty"`
}

func (o FlatOpts) String() string {
	s := "full"
	if o.Minimal {
		s = "minimal"
	} else if o.Expand {
		s = "expand"
	}
	if o.RemoveUnused {
		s += "+removeunused"
	}
	if o.KeepNames {
		s += "+keepnames"
	}
	if o.ContinueOnError {
		s += "+continue"
	}
	return s
}

// Schedule decides every map iteration of one run.
type Schedule struct {
	Seed     uint64 `json:"seed"`
	PerturbP uint32 `json:"perturb_p"` // 0..256; hash(seed, site) < p => site perturbed (ignored when Sites != nil)
	// Sites, when non-nil, is the explicit (minimised) form: site name -> policy name; all other sites canonical.
	Sites      map[string]string `json:"sites,omitempty"`
	Explicit   bool              `json:"explicit,omitempty"` // Sites is authoritative even if empty
	InsertMode int               `json:"insert_mode,omitempty"`
	KeyPerm    uint64            `json:"key_perm,omitempty"` // != 0: disk documents are served with JSON object keys permuted by this seed
}

// Fault at the loader seam, addressed by the 1-based sequence number of the load within the run.
type Fault struct {
	K    int    `json:"k"`
	Kind string `json:"kind"` // enoent | eio | enoent-from | dead | short | torn
	N    int    `json:"n,omitempty"`
	Path string `json:"path,omitempty"`
}

type Call struct {
	M    string   `json:"m"`
	Args []string `json:"args,omitempty"`
}

type Case struct {
	Property string   `json:"property"`
	Kind     string   `json:"kind"` // flatten | failsafe | mixin | readers
	Index    int64    `json:"index"`
	GenSeed  uint64   `json:"gen_seed"`
	Class    string   `json:"class,omitempty"` // W | W+
	Features []string `json:"features,omitempty"`

	Disk map[string]string `json:"disk,omitempty"`
	Root string            `json:"root,omitempty"`
	Opts FlatOpts          `json:"opts"`

	Schedules []Schedule `json:"schedules,omitempty"`
	Faults    []Fault    `json:"faults,omitempty"`
	// failsafe: which API to drive
	API string `json:"api,omitempty"` // Flatten | New | Schema

	// mixin
	Primary string   `json:"primary,omitempty"`
	Mixins  []string `json:"mixins,omitempty"`
	Split   bool     `json:"split,omitempty"` // successive calls instead of one

	// readers (C16)
	Doc       string   `json:"doc,omitempty"`
	Flattened bool     `json:"flattened,omitempty"`
	Readers   [][]Call `json:"readers,omitempty"`
	Decisions []uint8  `json:"decisions,omitempty"`

	StepBudget int64 `json:"step_budget,omitempty"`

	// filled in replay files
	Clause        string         `json:"clause,omitempty"`
	Detail        string         `json:"detail,omitempty"`
	VerifSeed     uint64         `json:"verif_seed,omitempty"`
	MinimisedFrom map[string]int `json:"minimised_from,omitempty"`
}

// Failure of one oracle clause.
type Failure struct {
	Property string `json:"property"`
	Clause   string `json:"clause"`
	Detail   string `json:"detail"`
	// Sig is a stable signature used to match known findings (e.g. a call site or name class).
	Sig string `json:"sig,omitempty"`
}

// Verdict of executing one case.
type Verdict struct {
	HB         bool             `json:"hb,omitempty"` // heartbeat line (progress inside a long case), not a verdict
	Index      int64            `json:"index"`
	Failures   []Failure        `json:"failures,omitempty"`
	Infra      string           `json:"infra,omitempty"` // harness/generator trouble: exit 2
	Evals      int64            `json:"evals"`           // executions of code under test
	Nontrivial bool             `json:"nontrivial"`
	Distinct   []uint64         `json:"distinct,omitempty"` // keys of distinct non-trivial executions
	Steps      int64            `json:"steps"`
	MaxSteps   int64            `json:"max_steps"`
	Loads      int64            `json:"loads"`
	Counters   map[string]int64 `json:"counters,omitempty"`
	SitePert   map[string]int64 `json:"site_pert,omitempty"`
	OutHash    uint64           `json:"out_hash,omitempty"`
	Features   []string         `json:"features,omitempty"`
	Case       *Case            `json:"case,omitempty"` // present when failing or when a sample was requested
}

func (v *Verdict) count(name string, n int64) {
	if v.Counters == nil {
		v.Counters = map[string]int64{}
	}
	v.Counters[name] += n
}

func (v *Verdict) fail(prop, clause, sig, detail string) {
	v.Failures = append(v.Failures, Failure{Property: prop, Clause: clause, Sig: sig, Detail: truncate(detail, 1500)})
}
