package main

import (
	"bufio"
	"bytes"
	"encoding/json"
	"flag"
	"fmt"
	"io"
	"os"
	"os/exec"
	"path/filepath"
	"runtime"
	"sort"
	"strings"
	"sync"
	"time"
)

type workerProc struct {
	id       int
	cmd      *exec.Cmd
	in       io.WriteCloser
	dec      *json.Decoder
	inflight string
	errPath  string
	race     bool
	dead     bool
}

type driverCfg struct {
	prop      string
	tier      string
	seed      uint64
	evidence  string
	replays   string
	known     string
	tmp       string
	workers   int
	race      bool
	maxprocs  int
	cases     int64
	wall      time.Duration
	caseTimeo time.Duration
	dumpKnown string
	caseFile  string
}

func startWorker(id int, cfg *driverCfg) (*workerProc, error) {
	self, err := os.Executable()
	if err != nil {
		return nil, err
	}
	w := &workerProc{id: id, race: cfg.race}
	w.inflight = filepath.Join(cfg.tmp, fmt.Sprintf("inflight-%d.json", id))
	w.errPath = filepath.Join(cfg.tmp, fmt.Sprintf("worker-%d.stderr", id))
	os.Remove(w.inflight)
	args := []string{"worker", "-inflight", w.inflight}
	if cfg.maxprocs > 0 {
		args = append(args, "-maxprocs", fmt.Sprint(cfg.maxprocs))
	}
	w.cmd = exec.Command(self, args...)
	w.cmd.Env = append(os.Environ(), "GORACE=halt_on_error=1 exitcode=66", "GOTRACEBACK=single")
	ef, err := os.Create(w.errPath)
	if err != nil {
		return nil, err
	}
	w.cmd.Stderr = ef
	w.in, err = w.cmd.StdinPipe()
	if err != nil {
		return nil, err
	}
	out, err := w.cmd.StdoutPipe()
	if err != nil {
		return nil, err
	}
	if err := w.cmd.Start(); err != nil {
		return nil, err
	}
	ef.Close()
	w.dec = json.NewDecoder(bufio.NewReaderSize(out, 1<<20))
	return w, nil
}

func (w *workerProc) stop() {
	if w == nil || w.dead {
		return
	}
	w.in.Close()
	done := make(chan struct{})
	go func() { w.cmd.Wait(); close(done) }()
	select {
	case <-done:
	case <-time.After(3 * time.Second):
		w.cmd.Process.Kill()
		<-done
	}
	w.dead = true
}

// do sends one command. crashed=true means the worker process died while executing it.
func (w *workerProc) do(cmd workerCmd, timeout time.Duration) (v *Verdict, crashed bool, timedOut bool, info string) {
	b, _ := json.Marshal(cmd)
	b = append(b, '\n')
	if _, err := w.in.Write(b); err != nil {
		crashed = true
	}
	type res struct {
		v   *Verdict
		err error
	}
	ch := make(chan res, 1)
	if !crashed {
		hb := make(chan struct{}, 64)
		go func() {
			for {
				var v Verdict
				err := w.dec.Decode(&v)
				if err == nil && v.HB {
					select {
					case hb <- struct{}{}:
					default:
					}
					continue
				}
				ch <- res{&v, err}
				return
			}
		}()
	wait:
		for {
			select {
			case r := <-ch:
				if r.err == nil {
					return r.v, false, false, ""
				}
				crashed = true
				break wait
			case <-hb:
				// progress: restart the no-progress timer
			case <-time.After(timeout):
				timedOut = true
				w.cmd.Process.Kill()
				<-ch
				break wait
			}
		}
	}
	err := w.cmd.Wait()
	w.dead = true
	code := -1
	if ee, ok := err.(*exec.ExitError); ok {
		code = ee.ExitCode()
	}
	tail, _ := os.ReadFile(w.errPath)
	if len(tail) > 6000 {
		tail = append(tail[:3000:3000], tail[len(tail)-3000:]...)
	}
	info = fmt.Sprintf("worker exit code %d; stderr: %s", code, tail)
	return nil, crashed, timedOut, info
}

func crashClause(info string) (clause, sig string) {
	switch {
	case strings.Contains(info, "WARNING: DATA RACE"):
		sig := "race"
		// first analysis frame in the report
		for _, l := range strings.Split(info, "\n") {
			l = strings.TrimSpace(l)
			if strings.HasPrefix(l, "github.com/go-openapi/analysis") {
				if i := strings.Index(l, "("); i > 0 {
					sig = strings.TrimPrefix(l[:i], "github.com/go-openapi/")
				}
				break
			}
		}
		return "data-race", sig
	case strings.Contains(info, "stack overflow") || strings.Contains(info, "goroutine stack exceeds"):
		sig := "stack-overflow"
		for _, l := range strings.Split(info, "\n") {
			l = strings.TrimSpace(l)
			if strings.HasPrefix(l, "github.com/go-openapi/analysis") {
				if i := strings.Index(l, "("); i > 0 {
					sig = "stack-overflow@" + strings.TrimPrefix(l[:i], "github.com/go-openapi/")
				}
				break
			}
		}
		return "stack-overflow", sig
	case strings.Contains(info, "concurrent map"):
		return "fatal-concurrent-map-access", "concurrent-map"
	case strings.Contains(info, "fatal error"):
		return "fatal-runtime-error", "fatal"
	}
	return "worker-died", "unknown"
}

type knownFinding struct {
	Property string `json:"property"`
	Status   string `json:"status"` // open | fixed
	Clause   string `json:"clause"`
	Sig      string `json:"sig"`
	What     string `json:"what"`
	Commit   string `json:"commit,omitempty"`
	// Neutralise names a counterfactual transformation (neutralise.go): the finding explains a failing case only
	// if the same clause no longer fails once the transformation has been applied to that very case.
	Neutralise string `json:"neutralise,omitempty"`
	ID         string `json:"id,omitempty"`
	// Features, when set, restricts the finding to cases whose generator drew ALL of these construct classes.
	Features []string `json:"features,omitempty"`
}

type knownFile struct {
	Findings []knownFinding `json:"findings"`
}

func loadKnown(p string) []knownFinding {
	b, err := os.ReadFile(p)
	if err != nil {
		return nil
	}
	var kf knownFile
	if err := json.Unmarshal(b, &kf); err != nil {
		fmt.Fprintln(os.Stderr, "simh: cannot parse known findings:", err)
		os.Exit(2)
	}
	return kf.Findings
}

func sigMatches(pattern, sig string) bool {
	if pattern == "*" {
		return true
	}
	if strings.HasSuffix(pattern, "*") {
		return strings.HasPrefix(sig, strings.TrimSuffix(pattern, "*"))
	}
	return pattern == sig
}

func featuresMatch(k *knownFinding, c *Case) bool {
	if len(k.Features) == 0 {
		return true
	}
	if c == nil {
		return false
	}
	for _, f := range k.Features {
		if !hasFeature(c, f) {
			return false
		}
	}
	return true
}

// matchKnown: exact entries only (no counterfactual run needed).
func matchKnown(known []knownFinding, f Failure, c *Case) *knownFinding {
	for i := range known {
		k := &known[i]
		if k.Status == "open" && k.Neutralise == "" && k.Property == f.Property && (k.Clause == "*" || k.Clause == f.Clause) && sigMatches(k.Sig, f.Sig) && featuresMatch(k, c) {
			return k
		}
	}
	return nil
}

// explain attributes a failing case to a known finding, running the counterfactual where the finding asks for it.
// A case may suffer from two known defects at once (say exotic names AND the Expand double re-base): when the
// neutralised case still fails the clause, that remaining failure may itself be explained by another known finding
// (one more level only).
func explain(known []knownFinding, f Failure, c *Case, run *caseRunner) *knownFinding {
	return explainDepth(known, f, c, run, 0)
}

func explainDepth(known []knownFinding, f Failure, c *Case, run *caseRunner, depth int) *knownFinding {
	if k := matchKnown(known, f, c); k != nil {
		return k
	}
	if c == nil {
		return nil
	}
	for i := range known {
		k := &known[i]
		if k.Status != "open" || k.Neutralise == "" || k.Property != f.Property || !(k.Clause == "*" || k.Clause == f.Clause) || !sigMatches(k.Sig, f.Sig) || !featuresMatch(k, c) {
			continue
		}
		nc, changed := neutralise(k.Neutralise, c)
		if !changed {
			continue
		}
		v := run.run(nc)
		if v == nil || v.Infra != "" {
			continue
		}
		var still []Failure
		for _, g := range v.Failures {
			if g.Property == f.Property && g.Clause == f.Clause {
				still = append(still, g)
			}
		}
		if len(still) == 0 {
			return k
		}
		if depth == 0 {
			all := true
			for _, g := range still {
				if explainDepth(known, g, nc, run, depth+1) == nil {
					all = false
					break
				}
			}
			if all {
				return k
			}
		}
	}
	return nil
}

type tierSpec struct {
	cases int64
	wall  time.Duration
}

func tierFor(prop, tier string) tierSpec {
	quick := map[string]tierSpec{
		"C01": {4000, 100 * time.Second}, "C02": {4000, 100 * time.Second}, "C03": {3500, 100 * time.Second},
		"C04": {4500, 100 * time.Second}, "C05": {3500, 100 * time.Second}, "C06": {4000, 100 * time.Second},
		"C07": {2000, 110 * time.Second}, "C08": {3000, 100 * time.Second}, "C10": {4000, 100 * time.Second},
		"C09": {1500, 120 * time.Second}, "C16": {1000, 100 * time.Second},
		"C17": {40000, 60 * time.Second}, "C18": {40000, 60 * time.Second},
	}
	thorough := map[string]tierSpec{
		"C01": {60000, 20 * time.Minute}, "C02": {60000, 20 * time.Minute}, "C03": {50000, 20 * time.Minute},
		"C04": {60000, 20 * time.Minute}, "C05": {50000, 20 * time.Minute}, "C06": {60000, 20 * time.Minute},
		"C07": {20000, 30 * time.Minute}, "C08": {40000, 15 * time.Minute}, "C10": {60000, 20 * time.Minute},
		"C09": {15000, 30 * time.Minute}, "C16": {80000, 30 * time.Minute},
		"C17": {600000, 10 * time.Minute}, "C18": {600000, 10 * time.Minute},
	}
	if tier == "thorough" {
		return thorough[prop]
	}
	return quick[prop]
}

func failCap(tier string) int {
	if tier == "thorough" {
		return 2500
	}
	return 400
}

type failRec struct {
	f Failure
	c *Case
}

type aggregate struct {
	mu         sync.Mutex
	evals      int64
	cases      int64
	steps      int64
	maxSteps   int64
	loads      int64
	counters   map[string]int64
	sitePert   map[string]int64
	distinct   map[uint64]struct{}
	outputs    map[uint64]struct{}
	features   map[string]int64
	samples    []*Case
	fails      []failRec
	infra      []string
	crashes    int64
	nontrivial int64
}

func (a *aggregate) add(v *Verdict) {
	a.mu.Lock()
	defer a.mu.Unlock()
	a.cases++
	a.evals += v.Evals
	a.steps += v.Steps
	if v.MaxSteps > a.maxSteps {
		a.maxSteps = v.MaxSteps
	}
	a.loads += v.Loads
	for k, n := range v.Counters {
		a.counters[k] += n
	}
	for k, n := range v.SitePert {
		a.sitePert[k] += n
	}
	for _, d := range v.Distinct {
		a.distinct[d] = struct{}{}
	}
	if v.OutHash != 0 {
		a.outputs[v.OutHash] = struct{}{}
	}
	if v.Nontrivial {
		a.nontrivial++
	}
	for _, f := range v.Features {
		a.features[f]++
	}
	if v.Case != nil {
		if len(v.Failures) == 0 && len(a.samples) < 3 {
			a.samples = append(a.samples, v.Case)
		}
	}
	if v.Infra != "" {
		a.infra = append(a.infra, v.Infra)
	}
	for _, f := range v.Failures {
		a.fails = append(a.fails, failRec{f, v.Case})
	}
}

func driveMain(args []string) int {
	fs := flag.NewFlagSet("drive", flag.ExitOnError)
	cfg := &driverCfg{}
	fs.StringVar(&cfg.prop, "prop", "", "property id")
	fs.StringVar(&cfg.tier, "tier", "quick", "quick|thorough")
	fs.Uint64Var(&cfg.seed, "seed", 1, "VERIF_SEED")
	fs.StringVar(&cfg.evidence, "evidence", "", "evidence file to write")
	fs.StringVar(&cfg.replays, "replays", "", "directory for replay files")
	fs.StringVar(&cfg.known, "known", "", "known findings file")
	fs.StringVar(&cfg.tmp, "tmp", "", "scratch directory")
	fs.IntVar(&cfg.workers, "workers", runtime.NumCPU(), "worker processes")
	fs.BoolVar(&cfg.race, "race", false, "binary was built with -race")
	fs.IntVar(&cfg.maxprocs, "maxprocs", 0, "GOMAXPROCS for workers")
	fs.Int64Var(&cfg.cases, "cases", 0, "override case count")
	fs.DurationVar(&cfg.wall, "wall", 0, "override wall-clock cap")
	fs.StringVar(&cfg.caseFile, "casefile", "", "debugging aid: run the attribution pipeline on this one explicit case instead of a generated batch")
	fs.StringVar(&cfg.dumpKnown, "dumpknown", "", "debugging aid: directory receiving one explained case per (known finding, clause, sig)")
	fs.Parse(args)
	ts := tierFor(cfg.prop, cfg.tier)
	if ts.cases == 0 {
		fmt.Fprintln(os.Stderr, "simh: unknown property/tier", cfg.prop, cfg.tier)
		return 2
	}
	if cfg.cases > 0 {
		ts.cases = cfg.cases
	}
	if cfg.wall > 0 {
		ts.wall = cfg.wall
	}
	cfg.caseTimeo = 180 * time.Second
	start := time.Now()
	known := loadKnown(cfg.known)

	agg := &aggregate{counters: map[string]int64{}, sitePert: map[string]int64{}, distinct: map[uint64]struct{}{},
		outputs: map[uint64]struct{}{}, features: map[string]int64{}}
	jobs := make(chan int64, 64)
	stopDispatch := make(chan struct{})
	var stopOnce sync.Once
	deadline := start.Add(ts.wall)
	var explicit *Case
	if cfg.caseFile != "" {
		b, err := os.ReadFile(cfg.caseFile)
		if err != nil {
			fmt.Fprintln(os.Stderr, "simh:", err)
			return 2
		}
		explicit = new(Case)
		if err := json.Unmarshal(b, explicit); err != nil {
			fmt.Fprintln(os.Stderr, "simh:", err)
			return 2
		}
		explicit.Index = 0
		ts.cases = 1
	}
	go func() {
		defer close(jobs)
		for i := int64(0); i < ts.cases; i++ {
			if time.Now().After(deadline) {
				return
			}
			select {
			case jobs <- i:
			case <-stopDispatch:
				return
			}
		}
	}()
	var wg sync.WaitGroup
	var infraMu sync.Mutex
	infraFatal := ""
	for wi := 0; wi < cfg.workers; wi++ {
		wg.Add(1)
		go func(wi int) {
			defer wg.Done()
			var w *workerProc
			defer func() { w.stop() }()
			for idx := range jobs {
				if w == nil || w.dead {
					var err error
					w, err = startWorker(wi, cfg)
					if err != nil {
						infraMu.Lock()
						infraFatal = "cannot start worker: " + err.Error()
						infraMu.Unlock()
						stopOnce.Do(func() { close(stopDispatch) })
						return
					}
				}
				cmd := workerCmd{Op: "gen", Prop: cfg.prop, Tier: cfg.tier, Seed: cfg.seed, Index: idx, Sample: idx < 3}
				if explicit != nil {
					cmd = workerCmd{Op: "exec", Case: explicit, Sample: true}
				}
				v, crashed, timedOut, info := w.do(cmd, cfg.caseTimeo)
				if timedOut {
					infraMu.Lock()
					infraFatal = fmt.Sprintf("watchdog: case %d did not finish within %v without exceeding the step budget", idx, cfg.caseTimeo)
					infraMu.Unlock()
					stopOnce.Do(func() { close(stopDispatch) })
					return
				}
				if crashed {
					var c Case
					b, err := os.ReadFile(w.inflight)
					if err != nil || json.Unmarshal(b, &c) != nil || c.Index != idx {
						infraMu.Lock()
						infraFatal = "worker died outside a case: " + truncate(info, 2000)
						infraMu.Unlock()
						stopOnce.Do(func() { close(stopDispatch) })
						return
					}
					clause, sig := crashClause(info)
					v = &Verdict{Index: idx, Evals: 1, Case: &c}
					v.fail(cfg.prop, clause, sig, truncate(info, 1500))
					agg.mu.Lock()
					agg.crashes++
					agg.mu.Unlock()
				}
				agg.add(v)
				agg.mu.Lock()
				nf := 0
				for _, fr := range agg.fails {
					if matchKnown(known, fr.f, fr.c) == nil {
						nf++
					}
				}
				ninfra := len(agg.infra)
				agg.mu.Unlock()
				// failing cases still to be attributed (most of them to known findings, through counterfactual runs) are
				// costly: the search stops dispatching once it holds this many; evidence reports it as stopped_early
				if nf >= failCap(cfg.tier) || ninfra > 0 {
					stopOnce.Do(func() { close(stopDispatch) })
				}
			}
		}(wi)
	}
	wg.Wait()
	searchWall := time.Since(start)

	if infraFatal != "" {
		fmt.Fprintln(os.Stderr, "simh: INFRASTRUCTURE:", infraFatal)
		return 2
	}
	if len(agg.infra) > 0 {
		fmt.Fprintln(os.Stderr, "simh: INFRASTRUCTURE:", agg.infra[0])
		return 2
	}

	// attribute every failing case either to a known finding (exact match, or counterfactual run) or to nobody
	sort.SliceStable(agg.fails, func(i, j int) bool {
		ci, cj := agg.fails[i].c, agg.fails[j].c
		if ci == nil || cj == nil {
			return cj == nil && ci != nil
		}
		return ci.Index < cj.Index
	})
	type group struct {
		f     Failure
		c     *Case
		count int
	}
	groups := map[string]*group{}
	knownHit := map[string]int{}
	knownWhat := map[string]string{}
	var runner *caseRunner
	explained, checkedCF := 0, 0
	assumed := map[string]*knownFinding{} // clause|sig -> finding that explained every examined member so far
	mixed := map[string]bool{}
	for _, fr := range agg.fails {
		if fr.f.Property != cfg.prop {
			continue
		}
		if fr.c == nil {
			fmt.Fprintln(os.Stderr, "simh: INFRASTRUCTURE: failing verdict without case")
			return 2
		}
		if runner == nil {
			runner = newCaseRunner(cfg)
			defer runner.close()
		}
		key := fr.f.Clause + "|" + fr.f.Sig
		var kf *knownFinding
		if checkedCF < 600 || assumed[key] == nil || mixed[key] {
			kf = explain(known, fr.f, fr.c, runner)
			checkedCF++
			if kf != nil && assumed[key] == nil {
				assumed[key] = kf
			}
			if kf == nil {
				mixed[key] = true
			}
		} else {
			kf = assumed[key] // budget exhausted and every examined member of this group was explained by the same finding
			agg.counters["known_finding_assumed_without_counterfactual"]++
		}
		if kf != nil {
			id := kf.ID
			if id == "" {
				id = kf.Clause + "|" + kf.Sig + "|" + kf.Neutralise
			}
			knownHit[id]++
			knownWhat[id] = kf.What
			explained++
			if cfg.dumpKnown != "" {
				dk := fmt.Sprintf("%s/%s-%s-%016x.json", cfg.dumpKnown, cfg.prop, strings.ReplaceAll(id, "|", "_"), hashStr(key))
				if _, err := os.Stat(dk); err != nil {
					os.MkdirAll(cfg.dumpKnown, 0o755)
					fc := cloneCase(fr.c)
					fc.Clause, fc.Detail = fr.f.Clause, fr.f.Detail+" [sig="+fr.f.Sig+"]"
					cb, _ := json.MarshalIndent(fc, "", " ")
					os.WriteFile(dk, cb, 0o644)
				}
			}
			continue
		}
		g, ok := groups[key]
		if !ok {
			groups[key] = &group{f: fr.f, c: fr.c, count: 1}
			continue
		}
		g.count++
	}
	gkeys := make([]string, 0, len(groups))
	for k := range groups {
		gkeys = append(gkeys, k)
	}
	sort.Strings(gkeys)

	violations := 0
	var out bytes.Buffer
	for _, id := range sortedKeysInt(knownHit) {
		fmt.Fprintf(&out, "KNOWN-FINDING: property=%s %s [%s, %d case(s) in this run]\n", cfg.prop, knownWhat[id], id, knownHit[id])
	}
	minimised := 0
	for _, k := range gkeys {
		g := groups[k]
		final := g.c
		final.Clause, final.Detail = g.f.Clause, g.f.Detail
		// confirm the original in a fresh process first
		fv := runner.runFresh(final)
		ff := sameFailure(fv, g.f)
		if ff == nil {
			fmt.Fprintf(os.Stderr, "simh: INFRASTRUCTURE: failure %s/%s of case %d did not reproduce in a fresh process (nondeterministic harness?)\n", g.f.Clause, g.f.Sig, g.c.Index)
			return 2
		}
		if minimised < 4 {
			minimised++
			m := minimise(final, g.f, runner, 90*time.Second, known)
			mv := runner.runFresh(m)
			if mf := sameFailure(mv, g.f); mf != nil {
				final = m
				final.Clause, final.Detail = mf.Clause, mf.Detail
			}
		}
		os.MkdirAll(cfg.replays, 0o755)
		cb, _ := json.MarshalIndent(final, "", " ")
		name := fmt.Sprintf("%s-%d-%016x.json", cfg.prop, cfg.seed, fnv64(cb))
		rp := filepath.Join(cfg.replays, name)
		if err := os.WriteFile(rp, cb, 0o644); err != nil {
			fmt.Fprintln(os.Stderr, "simh: INFRASTRUCTURE: cannot write replay:", err)
			return 2
		}
		violations++
		fmt.Fprintf(&out, "VIOLATION property=%s replay=%s\n", cfg.prop, rp)
		fmt.Fprintf(&out, "  clause=%s sig=%s cases=%d detail=%s\n", final.Clause, g.f.Sig, g.count, truncate(final.Detail, 700))
	}

	if err := writeEvidence(cfg, agg, ts, searchWall, time.Since(start), violations, knownHit); err != nil {
		fmt.Fprintln(os.Stderr, "simh: INFRASTRUCTURE: evidence:", err)
		return 2
	}
	os.Stdout.Write(out.Bytes())
	fmt.Printf("simh: property=%s tier=%s seed=%d cases=%d evaluations=%d distinct_nontrivial=%d violations=%d known_findings_hit=%d wall=%.1fs\n",
		cfg.prop, cfg.tier, cfg.seed, agg.cases, agg.evals, len(agg.distinct), violations, len(knownHit), time.Since(start).Seconds())
	if violations > 0 {
		return 1
	}
	return 0
}

func sortedKeysInt(m map[string]int) []string {
	keys := make([]string, 0, len(m))
	for k := range m {
		keys = append(keys, k)
	}
	sort.Strings(keys)
	return keys
}

func sameFailure(v *Verdict, f Failure) *Failure {
	if v == nil {
		return nil
	}
	for i := range v.Failures {
		g := &v.Failures[i]
		if g.Property == f.Property && g.Clause == f.Clause && g.Sig == f.Sig {
			return g
		}
	}
	return nil
}

// caseRunner executes explicit cases in worker subprocesses (crash-safe).
type caseRunner struct {
	cfg   *driverCfg
	w     *workerProc
	execs int
}

func newCaseRunner(cfg *driverCfg) *caseRunner { return &caseRunner{cfg: cfg} }

func (r *caseRunner) close() { r.w.stop() }

func (r *caseRunner) run(c *Case) *Verdict {
	r.execs++
	if r.w == nil || r.w.dead {
		w, err := startWorker(1000, r.cfg)
		if err != nil {
			return &Verdict{Infra: err.Error()}
		}
		r.w = w
	}
	v, crashed, timedOut, info := r.w.do(workerCmd{Op: "exec", Case: c}, r.cfg.caseTimeo)
	if timedOut {
		return &Verdict{Infra: "watchdog"}
	}
	if crashed {
		clause, sig := crashClause(info)
		v = &Verdict{Index: c.Index, Case: c}
		v.fail(c.Property, clause, sig, truncate(info, 1500))
	}
	return v
}

// runFresh executes the case in a brand-new process.
func (r *caseRunner) runFresh(c *Case) *Verdict {
	r.w.stop()
	r.w = nil
	v := r.run(c)
	r.w.stop()
	r.w = nil
	return v
}

func replayMain(args []string) int {
	fs := flag.NewFlagSet("replay", flag.ExitOnError)
	cfg := &driverCfg{}
	fs.StringVar(&cfg.tmp, "tmp", os.TempDir(), "scratch directory")
	fs.BoolVar(&cfg.race, "race", false, "")
	fs.IntVar(&cfg.maxprocs, "maxprocs", 0, "")
	fs.Parse(args)
	if fs.NArg() != 1 {
		fmt.Fprintln(os.Stderr, "usage: simh replay <file>")
		return 2
	}
	b, err := os.ReadFile(fs.Arg(0))
	if err != nil {
		fmt.Fprintln(os.Stderr, "simh:", err)
		return 2
	}
	var c Case
	if err := json.Unmarshal(b, &c); err != nil {
		fmt.Fprintln(os.Stderr, "simh:", err)
		return 2
	}
	cfg.caseTimeo = 180 * time.Second
	r := newCaseRunner(cfg)
	v := r.runFresh(&c)
	if v.Infra != "" {
		fmt.Fprintln(os.Stderr, "simh: INFRASTRUCTURE:", v.Infra)
		return 2
	}
	for _, f := range v.Failures {
		if f.Property == c.Property && (c.Clause == "" || f.Clause == c.Clause) {
			fmt.Printf("VIOLATION property=%s replay=%s\n  clause=%s sig=%s detail=%s\n", c.Property, fs.Arg(0), f.Clause, f.Sig, truncate(f.Detail, 1200))
			return 1
		}
	}
	fmt.Printf("replay: property=%s clause=%s does not fail on this tree (%d other failure(s))\n", c.Property, c.Clause, len(v.Failures))
	return 0
}
