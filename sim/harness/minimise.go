package main

import (
	"encoding/json"
	"fmt"
	"sort"
	"strings"
	"time"

	"simrt"
)

// Minimisation of a failing explicit case: every candidate is a fresh execution through a worker process and
// counts only if the SAME oracle clause (and signature) fails. For class-W cases a candidate must also stay
// inside W (every $ref still resolves), otherwise the minimised case would be a false alarm.

func cloneCase(c *Case) *Case {
	b, _ := json.Marshal(c)
	var d Case
	json.Unmarshal(b, &d)
	return &d
}

func caseSize(c *Case) map[string]int {
	sz := map[string]int{"docs": len(c.Disk), "schedules": len(c.Schedules), "faults": len(c.Faults), "readers": len(c.Readers),
		"decisions": len(c.Decisions), "mixins": len(c.Mixins)}
	bytes := 0
	for _, d := range c.Disk {
		bytes += len(d)
	}
	bytes += len(c.Primary) + len(c.Doc)
	for _, m := range c.Mixins {
		bytes += len(m)
	}
	sz["document_bytes"] = bytes
	sites := 0
	for _, s := range c.Schedules {
		sites += len(s.Sites)
	}
	sz["explicit_sites"] = sites
	return sz
}

type minimiser struct {
	known    []knownFinding
	target   Failure
	run      *caseRunner
	deadline time.Time
	execs    int
}

func (m *minimiser) fails(c *Case) bool {
	if time.Now().After(m.deadline) {
		return false
	}
	m.execs++
	v := m.run.run(c)
	if v == nil || v.Infra != "" {
		return false
	}
	f := sameFailure(v, m.target)
	if f == nil {
		return false
	}
	// a candidate that a known finding explains is not the same violation any more
	if len(m.known) > 0 && explain(m.known, *f, c, m.run) != nil {
		return false
	}
	return true
}

func (m *minimiser) valid(c *Case) bool {
	if c.Class == "W" && c.Disk != nil {
		if err := validateRefsResolve(c.Disk, c.Root); err != nil {
			return false
		}
		if c.Property == "C07" && c.Opts.Expand && hasRefCycle(c.Disk, c.Root) {
			return false
		}
	}
	if c.Kind == "mixin" && !mixinPrecondition(c) {
		return false
	}
	return true
}

func sitePolicy(seed uint64, site int) int {
	h := simrt.Mix(seed, uint64(site)+1)
	return 1 + int((h>>8)%3)
}

func minimise(orig *Case, target Failure, run *caseRunner, budget time.Duration, known []knownFinding) *Case {
	m := &minimiser{target: target, run: run, deadline: time.Now().Add(budget), known: known}
	cur := cloneCase(orig)
	before := caseSize(cur)
	// non-termination candidates are judged with a smaller step budget while minimising (still > 10x any
	// terminating run seen); the final replay is verified again with the full budget by the caller
	if strings.Contains(target.Sig, "overrun") || strings.Contains(target.Clause, "terminate") {
		cur.StepBudget = 400_000
	}

	// 1. schedules
	if len(cur.Schedules) > 1 {
		if cur.Property == "C07" {
			for j := 1; j < len(cur.Schedules); j++ {
				cand := cloneCase(cur)
				cand.Schedules = []Schedule{cur.Schedules[0], cur.Schedules[j]}
				if m.fails(cand) {
					cur = cand
					break
				}
			}
		} else {
			for j := 0; j < len(cur.Schedules); j++ {
				cand := cloneCase(cur)
				cand.Schedules = []Schedule{cur.Schedules[j]}
				if m.fails(cand) {
					cur = cand
					break
				}
			}
		}
	}
	// 2. make schedules explicit, then drop sites
	for si := range cur.Schedules {
		s := cur.Schedules[si]
		if s.KeyPerm != 0 {
			cand := cloneCase(cur)
			cand.Schedules[si].KeyPerm = 0
			if m.fails(cand) {
				cur = cand
			}
		}
		s = cur.Schedules[si]
		if s.PerturbP > 0 && s.Sites == nil {
			// canonical instead?
			cand := cloneCase(cur)
			cand.Schedules[si].PerturbP = 0
			if m.fails(cand) {
				cur = cand
				continue
			}
			// explicit form: all sites the hash selects
			cand = cloneCase(cur)
			ex := map[string]string{}
			for i, name := range sites.MapSites {
				h := simrt.Mix(s.Seed, uint64(i)+1)
				if uint32(h&0xff) < s.PerturbP {
					ex[name] = policyNames[sitePolicy(s.Seed, i)]
				}
			}
			cand.Schedules[si].Sites = ex
			cand.Schedules[si].Explicit = true
			cand.Schedules[si].PerturbP = 0
			if !m.fails(cand) {
				continue
			}
			cur = cand
		}
		if cur.Schedules[si].Sites != nil {
			// prefer analysis sites: first try dropping all spec/swag sites at once
			cand := cloneCase(cur)
			for name := range cand.Schedules[si].Sites {
				if !strings.HasPrefix(name, "analysis/") {
					delete(cand.Schedules[si].Sites, name)
				}
			}
			if len(cand.Schedules[si].Sites) < len(cur.Schedules[si].Sites) && m.fails(cand) {
				cur = cand
			}
			names := make([]string, 0, len(cur.Schedules[si].Sites))
			for name := range cur.Schedules[si].Sites {
				names = append(names, name)
			}
			sort.Strings(names)
			// halves, then singles
			for chunk := len(names) / 2; chunk >= 1; chunk /= 2 {
				for i := 0; i < len(names); i += chunk {
					cand := cloneCase(cur)
					removed := 0
					for j := i; j < i+chunk && j < len(names); j++ {
						if _, ok := cand.Schedules[si].Sites[names[j]]; ok {
							delete(cand.Schedules[si].Sites, names[j])
							removed++
						}
					}
					if removed > 0 && m.fails(cand) {
						cur = cand
					}
				}
			}
			for name, pol := range cur.Schedules[si].Sites {
				if pol != "reverse" {
					cand := cloneCase(cur)
					cand.Schedules[si].Sites[name] = "reverse"
					if m.fails(cand) {
						cur = cand
					}
				}
			}
		}
		if cur.Schedules[si].InsertMode != 1 {
			cand := cloneCase(cur)
			cand.Schedules[si].InsertMode = 1
			if m.fails(cand) {
				cur = cand
			}
		}
	}
	// 2b. options: prefer the plainest option set that still fails (only switches that keep the case in the
	// property's quantifier: dropping RemoveUnused/KeepNames is always inside W for the properties that accept both)
	if cur.Kind == "flatten" || cur.Kind == "failsafe" {
		if cur.Opts.KeepNames {
			cand := cloneCase(cur)
			cand.Opts.KeepNames = false
			if m.fails(cand) {
				cur = cand
			}
		}
		if cur.Opts.RemoveUnused && cur.Property != "C06" {
			cand := cloneCase(cur)
			cand.Opts.RemoveUnused = false
			if m.fails(cand) {
				cur = cand
			}
		}
	}
	// 3. faults
	for i := len(cur.Faults) - 1; i >= 0 && len(cur.Faults) > 0; i-- {
		if i >= len(cur.Faults) {
			continue
		}
		cand := cloneCase(cur)
		cand.Faults = append(cand.Faults[:i:i], cand.Faults[i+1:]...)
		if m.fails(cand) {
			cur = cand
		}
	}
	// 4. readers / decisions
	if cur.Kind == "readers" {
		cur = m.shrinkReaders(cur)
	}
	// 5. documents
	cur = m.shrinkDocs(cur)

	cur.MinimisedFrom = before
	cur.StepBudget = orig.StepBudget
	return cur
}

func (m *minimiser) shrinkReaders(cur *Case) *Case {
	// zero decisions from the end
	for cut := len(cur.Decisions) / 2; cut >= 1; cut /= 2 {
		for len(cur.Decisions) >= cut {
			cand := cloneCase(cur)
			cand.Decisions = cand.Decisions[:len(cand.Decisions)-cut]
			if m.fails(cand) {
				cur = cand
			} else {
				break
			}
		}
	}
	for ri := len(cur.Readers) - 1; ri >= 0; ri-- {
		if len(cur.Readers) <= 1 {
			break
		}
		cand := cloneCase(cur)
		cand.Readers = append(cand.Readers[:ri:ri], cand.Readers[ri+1:]...)
		if m.fails(cand) {
			cur = cand
		}
	}
	for ri := range cur.Readers {
		for ci := len(cur.Readers[ri]) - 1; ci >= 0; ci-- {
			if len(cur.Readers[ri]) <= 1 {
				break
			}
			cand := cloneCase(cur)
			cand.Readers[ri] = append(cand.Readers[ri][:ci:ci], cand.Readers[ri][ci+1:]...)
			if m.fails(cand) {
				cur = cand
			}
		}
	}
	for i := range cur.Decisions {
		if cur.Decisions[i] != 0 {
			cand := cloneCase(cur)
			cand.Decisions[i] = 0
			if m.fails(cand) {
				cur = cand
			}
		}
	}
	return cur
}

// deletion candidates: JSON paths (as token lists) whose removal keeps a Swagger document well-formed
var deletableMapChildren = map[string]bool{"definitions": true, "properties": true, "paths": true, "responses": true, "headers": true,
	"x-pathitems": true, "pathItems": true, "securityDefinitions": true, "patternProperties": true}
var deletableArrayChildren = map[string]bool{"parameters": true, "allOf": true, "required": true, "tags": true, "security": true,
	"consumes": true, "produces": true, "schemes": true, "anyOf": true, "oneOf": true, "enum": true}
var deletableKeys = map[string]bool{"additionalProperties": true, "additionalItems": true, "required": true, "description": true,
	"format": true, "pattern": true, "enum": true, "headers": true, "consumes": true, "produces": true, "host": true, "basePath": true,
	"discriminator": true, "minimum": true, "maximum": true, "externalDocs": true, "tags": true, "security": true, "securityDefinitions": true,
	"schemes": true, "contact": true, "license": true, "termsOfService": true, "operationId": true, "x-pathitems": true, "pathItems": true,
	"get": true, "put": true, "post": true, "delete": true, "options": true, "head": true, "patch": true, "parameters": true,
	"definitions": true, "example": true, "default": true, "title": true}

func collectDeletions(v any, parentKey string, path []string, out *[][]string) {
	switch x := v.(type) {
	case map[string]any:
		for _, k := range sortedKeys(x) {
			p := append(append([]string{}, path...), k)
			if deletableMapChildren[parentKey] || deletableKeys[k] || strings.HasPrefix(k, "x-") {
				if !(len(path) == 0 && (k == "paths")) {
					*out = append(*out, p)
				}
			}
			collectDeletions(x[k], k, p, out)
		}
	case []any:
		for i, e := range x {
			p := append(append([]string{}, path...), fmt.Sprint(i))
			if deletableArrayChildren[parentKey] || (parentKey == "items") {
				*out = append(*out, p)
			}
			collectDeletions(e, parentKey, p, out)
		}
	}
}

func deleteAt(v any, path []string) (any, bool) {
	if len(path) == 0 {
		return v, false
	}
	switch x := v.(type) {
	case map[string]any:
		if len(path) == 1 {
			if _, ok := x[path[0]]; !ok {
				return v, false
			}
			delete(x, path[0])
			return x, true
		}
		child, ok := x[path[0]]
		if !ok {
			return v, false
		}
		nc, ok := deleteAt(child, path[1:])
		if ok {
			x[path[0]] = nc
		}
		return x, ok
	case []any:
		var i int
		if _, err := fmt.Sscanf(path[0], "%d", &i); err != nil || i < 0 || i >= len(x) {
			return v, false
		}
		if len(path) == 1 {
			return append(x[:i:i], x[i+1:]...), true
		}
		nc, ok := deleteAt(x[i], path[1:])
		if ok {
			x[i] = nc
		}
		return x, ok
	}
	return v, false
}

type docSlot struct {
	get func(c *Case) string
	set func(c *Case, s string)
}

func docSlots(c *Case) []docSlot {
	var slots []docSlot
	paths := make([]string, 0, len(c.Disk))
	for p := range c.Disk {
		paths = append(paths, p)
	}
	sort.Strings(paths)
	for _, p := range paths {
		p := p
		slots = append(slots, docSlot{func(c *Case) string { return c.Disk[p] }, func(c *Case, s string) { c.Disk[p] = s }})
	}
	if c.Primary != "" {
		slots = append(slots, docSlot{func(c *Case) string { return c.Primary }, func(c *Case, s string) { c.Primary = s }})
	}
	for i := range c.Mixins {
		i := i
		slots = append(slots, docSlot{func(c *Case) string { return c.Mixins[i] }, func(c *Case, s string) { c.Mixins[i] = s }})
	}
	if c.Doc != "" {
		slots = append(slots, docSlot{func(c *Case) string { return c.Doc }, func(c *Case, s string) { c.Doc = s }})
	}
	return slots
}

func (m *minimiser) shrinkDocs(cur *Case) *Case {
	// whole auxiliary files
	if len(cur.Disk) > 1 {
		paths := make([]string, 0, len(cur.Disk))
		for p := range cur.Disk {
			if p != cur.Root {
				paths = append(paths, p)
			}
		}
		sort.Strings(paths)
		for _, p := range paths {
			cand := cloneCase(cur)
			delete(cand.Disk, p)
			if m.valid(cand) && m.fails(cand) {
				cur = cand
			}
		}
	}
	// whole mixins
	for i := len(cur.Mixins) - 1; i >= 0; i-- {
		cand := cloneCase(cur)
		cand.Mixins = append(cand.Mixins[:i:i], cand.Mixins[i+1:]...)
		if m.valid(cand) && m.fails(cand) {
			cur = cand
		}
	}
	for round := 0; round < 6; round++ {
		progress := false
		for si := range docSlots(cur) {
			slot := docSlots(cur)[si]
			doc, err := parseJSON([]byte(slot.get(cur)))
			if err != nil {
				continue
			}
			var dels [][]string
			collectDeletions(doc, "", nil, &dels)
			// larger subtrees first (shorter paths), deterministic order
			sort.SliceStable(dels, func(i, j int) bool { return len(dels[i]) < len(dels[j]) })
			// deleting array elements shifts indices: process from the last to the first within equal prefixes
			for i, j := 0, len(dels)-1; i < j; i, j = i+1, j-1 {
				dels[i], dels[j] = dels[j], dels[i]
			}
			sort.SliceStable(dels, func(i, j int) bool { return len(dels[i]) < len(dels[j]) })
			for _, d := range dels {
				if time.Now().After(m.deadline) {
					return cur
				}
				cdoc, err := parseJSON([]byte(slot.get(cur)))
				if err != nil {
					break
				}
				nd, ok := deleteAt(cdoc, d)
				if !ok {
					continue
				}
				cand := cloneCase(cur)
				docSlots(cand)[si].set(cand, string(canonJSON(nd)))
				if !m.valid(cand) {
					continue
				}
				if m.fails(cand) {
					cur = cand
					progress = true
				}
			}
		}
		if !progress {
			break
		}
	}
	return cur
}
