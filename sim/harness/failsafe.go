package main

import (
	"encoding/json"
	"fmt"
	"sort"
	"strings"

	"simrt"

	"github.com/go-openapi/analysis"
	"github.com/go-openapi/spec"
)

// ---------------------------------------------------------------------------------------------
// W+ : constructs outside W on which only fail-safety is asserted (C09)

func (g *bundleGen) anyRootDef() (string, obj, bool) {
	rd := g.docs[0]
	if len(rd.defNames) == 0 {
		return "", nil, false
	}
	n := rd.defNames[g.r.Intn(len(rd.defNames))]
	s, _ := asObj(rd.defs[n])
	return n, s, s != nil
}

func (g *bundleGen) addRootDef(name string, s obj) {
	rd := g.docs[0]
	if _, exists := rd.defs[name]; !exists {
		rd.defNames = append(rd.defNames, name)
	}
	rd.defs[name] = s
}

// addRootOp adds an operation whose response (or body parameter) holds the given schema. The HTTP method, the
// response code and whether the path is templated are drawn, so that every kind of operation-level holder occurs.
func (g *bundleGen) addRootOp(p string, schema obj) {
	rd := g.docs[0]
	r := g.r
	method := methods[r.Intn(len(methods))]
	code := []string{"200", "200", "201", "default"}[r.Intn(4)]
	op := obj{"responses": obj{code: obj{"description": "ok", "schema": schema}}}
	if r.P(25) {
		op = obj{"parameters": []any{obj{"name": "body", "in": "body", "schema": schema}}, "responses": obj{"204": obj{"description": "none"}}}
	}
	pi := obj{method: op}
	if r.P(30) {
		p = p + "/{id}"
		pi["parameters"] = []any{obj{"name": "id", "in": "path", "required": true, "type": "string"}}
	}
	rd.paths[p] = pi
}

func (g *bundleGen) plantPlus() {
	r := g.r
	rd := g.docs[0]
	lonelyDangling := false
	if g.on("plusDangling") {
		// sometimes the dangling $ref is (nearly) all there is: nothing else keeps a definition alive, so that with
		// RemoveUnused - or with no definitions at all - the document reaches the end of Flatten with an empty definitions section
		lonelyDangling = r.P(35)
		ref := obj{"$ref": "#/definitions/MissingDef"}
		if len(g.docs) > 1 && r.P(50) && !(lonelyDangling && r.P(70)) {
			ref = obj{"$ref": refTo(rd, g.docs[1], "definitions", "MissingRemoteDef")}
		}
		if r.P(50) && !(lonelyDangling && r.P(70)) {
			g.addRootDef("hasDangling", obj{"type": "object", "properties": obj{"gone": ref}})
			g.addRootOp("/dangling", obj{"$ref": "#/definitions/hasDangling"})
		} else {
			g.addRootOp("/dangling", ref)
		}
	}
	if g.on("plusDanglingPart") {
		// a $ref to an OPTIONAL part which its target does not have: in the spec model these positions are nil pointers of
		// a pointer type (items, additionalProperties, additionalItems, the schema of a response), not missing map keys
		g.addRootDef("partless", obj{"type": "object", "properties": obj{"p": obj{"type": "string"}}})
		rd.paths["/partless"] = obj{"get": obj{"responses": obj{"204": obj{"description": "none"}}}}
		targets := [][]string{
			{"definitions", "partless", "items"},
			{"definitions", "partless", "additionalProperties"},
			{"definitions", "partless", "additionalItems"},
			{"definitions", "partless", "properties", "p", "items"},
			{"paths", "/partless", "get", "responses", "204", "schema"},
		}
		ref := obj{"$ref": mkRef("", targets[r.Intn(len(targets))]...)}
		switch r.Intn(3) {
		case 0:
			g.addRootDef("hasDanglingPart", obj{"type": "object", "properties": obj{"gone": ref}})
			g.addRootOp("/danglingpart", obj{"$ref": "#/definitions/hasDanglingPart"})
		case 1:
			g.addRootDef("hasDanglingPart", obj{"type": "array", "items": ref})
		default:
			g.addRootOp("/danglingpart", ref)
		}
	}
	if g.on("plusMissingFile") {
		ref := obj{"$ref": "nowhere/missing.json#/definitions/X"}
		if r.P(50) {
			g.addRootDef("hasMissingFile", obj{"type": "array", "items": ref})
			g.addRootOp("/missingfile", obj{"$ref": "#/definitions/hasMissingFile"})
		} else {
			g.addRootOp("/missingfile", ref)
		}
	}
	if g.on("plusDeepPtr") {
		g.addRootDef("deepTarget", obj{"type": "object", "properties": obj{"lvl1": obj{"type": "object", "properties": obj{"lvl2": obj{"type": "object", "properties": obj{"leaf": obj{"type": "string"}}}}}}})
		targets := [][]string{
			{"definitions", "deepTarget", "properties", "lvl1", "properties", "lvl2"},
			{"definitions", "deepTarget", "properties", "lvl1", "properties", "lvl2", "properties", "leaf"},
		}
		g.addRootOp("/deepsrc", obj{"type": "object", "properties": obj{"inl": obj{"type": "object", "properties": obj{"z": obj{"type": "integer"}}}}})
		targets = append(targets, []string{"paths", "/deepsrc", "post", "responses", "200", "schema"},
			[]string{"paths", "/deepsrc", "post", "responses", "200", "schema", "properties", "inl"})
		t := targets[r.Intn(len(targets))]
		g.addRootDef("deepUser", obj{"type": "object", "properties": obj{"d": obj{"$ref": mkRef("", t...)}}})
		if r.P(50) {
			g.addRootOp("/deepuse", obj{"$ref": mkRef("", t...)})
		}
	}
	if g.on("plusPtrInPtr") && r.P(40) {
		g.plantNestedPointers()
	} else if g.on("plusPtrInPtr") {
		switch r.Intn(3) {
		case 0: // a shared response whose schema points to itself
			rd.responses["selfPtr"] = obj{"description": "self", "schema": obj{"$ref": "#/responses/selfPtr/schema"}}
			rd.paths["/selfptr"] = obj{"get": obj{"responses": obj{"200": obj{"$ref": "#/responses/selfPtr"}}}}
		case 1: // pointer into a subtree that itself holds a pointer
			g.addRootDef("ptrA", obj{"type": "object", "properties": obj{"inner": obj{"type": "object", "properties": obj{"p": obj{"$ref": "#/definitions/ptrB/properties/q"}}}}})
			g.addRootDef("ptrB", obj{"type": "object", "properties": obj{"q": obj{"type": "object", "properties": obj{"k": obj{"type": "string"}}}}})
			g.addRootDef("ptrUser", obj{"type": "object", "properties": obj{"u": obj{"$ref": "#/definitions/ptrA/properties/inner"}}})
		case 2: // pointer to a pointer
			g.addRootDef("ptrC", obj{"type": "object", "properties": obj{"c1": obj{"$ref": "#/definitions/ptrC/properties/c2"}, "c2": obj{"type": "object", "properties": obj{"v": obj{"type": "number"}}}}})
			g.addRootOp("/ptrptr", obj{"$ref": "#/definitions/ptrC/properties/c1"})
		}
	}
	if g.on("plusPtrCycle") && r.P(50) {
		// rho-shaped chain: a tail that leads into a cycle which does not contain the first pointer
		g.addRootDef("rhoLoop", obj{"type": "object", "properties": obj{
			"a": obj{"$ref": "#/definitions/rhoLoop/properties/b"}, "b": obj{"$ref": "#/definitions/rhoLoop/properties/a"}}})
		g.addRootDef("rhoChain", obj{"type": "object", "properties": obj{"entry": obj{"$ref": "#/definitions/rhoLoop/properties/a"}}})
		for i := 0; i < r.Range(1, 4); i++ {
			g.addRootDef(fmt.Sprintf("aRhoTail%d", i), obj{"type": "object", "properties": obj{"t": obj{"$ref": "#/definitions/rhoChain/properties/entry"}}})
		}
		if r.P(50) {
			g.addRootOp("/rho", obj{"$ref": "#/definitions/rhoChain/properties/entry"})
		}
	} else if g.on("plusPtrCycle") {
		g.addRootDef("cycA", obj{"type": "object", "properties": obj{"x": obj{"$ref": "#/definitions/cycB/properties/y"}}})
		g.addRootDef("cycB", obj{"type": "object", "properties": obj{"y": obj{"$ref": "#/definitions/cycA/properties/x"}}})
		if r.P(50) {
			g.addRootOp("/cyc", obj{"$ref": "#/definitions/cycA"})
		}
	}
	if g.on("plusBackRef") && len(g.docs) > 1 {
		ad := g.docs[1]
		if n, _, ok := g.anyRootDef(); ok {
			name := "backToRoot"
			ad.defs[name] = obj{"type": "object", "properties": obj{"r": obj{"$ref": refTo(ad, rd, "definitions", n)}}}
			ad.defNames = append(ad.defNames, name)
			g.addRootDef("usesBack", obj{"type": "array", "items": obj{"$ref": refTo(rd, ad, "definitions", name)}})
		}
	}
	if g.on("plusCollideRefs") && len(g.docs) > 1 && r.P(40) {
		// two imported definitions that are mutually recursive through items/additionalProperties and BOTH collide by
		// name with root definitions
		ad := g.docs[1]
		g.addRootDef("node", obj{"type": "object", "properties": obj{"rootNode": obj{"type": "string"}}})
		g.addRootDef("leaf", obj{"type": "object", "properties": obj{"rootLeaf": obj{"type": "integer"}}})
		container := func(ref obj) obj {
			if r.P(50) {
				return obj{"type": "array", "items": ref}
			}
			return obj{"type": "object", "additionalProperties": ref}
		}
		if r.P(30) {
			container = func(ref obj) obj { return obj{"type": "object", "properties": obj{"p": ref}} }
		}
		for _, n := range []string{"node", "leaf"} {
			if _, ok := ad.defs[n]; !ok {
				ad.defNames = append(ad.defNames, n)
			}
		}
		ad.defs["node"] = container(obj{"$ref": "#/definitions/leaf"})
		ad.defs["leaf"] = container(obj{"$ref": "#/definitions/node"})
		g.addRootOp("/mutual", obj{"$ref": refTo(rd, ad, "definitions", "node")})
	}
	if g.on("plusContainerRec") {
		switch r.Intn(4) {
		case 0:
			g.addRootDef("mapOfSelf", obj{"type": "object", "additionalProperties": obj{"$ref": "#/definitions/mapOfSelf"}})
		case 1:
			g.addRootDef("arrOfSelf", obj{"type": "array", "items": obj{"$ref": "#/definitions/arrOfSelf"}})
		case 2:
			g.addRootDef("arr3", obj{"type": "array", "items": obj{"type": "array", "items": obj{"type": "array", "items": obj{"$ref": "#/definitions/arr3"}}}})
		case 3:
			g.addRootDef("mapArr", obj{"type": "object", "additionalProperties": obj{"type": "array", "items": obj{"$ref": "#/definitions/mapArr"}}})
		}
		if r.P(60) {
			n := []string{"mapOfSelf", "arrOfSelf", "arr3", "mapArr"}
			for _, k := range n {
				if _, ok := rd.defs[k]; ok {
					g.addRootOp("/rec"+k, obj{"$ref": mkRef("", "definitions", k)})
				}
			}
		}
	}
	if g.on("plusOddHolders") {
		if n, _, ok := g.anyRootDef(); ok {
			ref := obj{"$ref": mkRef("", "definitions", n)}
			var s obj
			switch r.Intn(5) {
			case 0:
				s = obj{"anyOf": []any{ref, obj{"type": "string"}}}
			case 1:
				s = obj{"oneOf": []any{obj{"type": "integer"}, ref}}
			case 2:
				s = obj{"not": ref}
			case 3:
				s = obj{"type": "object", "patternProperties": obj{"^x": ref}}
			case 4:
				s = obj{"type": "object", "definitions": obj{"nested": ref}, "properties": obj{"n": obj{"$ref": "#/definitions/oddHolder/definitions/nested"}}}
			}
			if len(g.docs) > 1 && r.P(40) {
				// the same through a remote $ref
				ad := g.docs[1]
				if len(ad.defNames) > 0 {
					s = obj{"anyOf": []any{obj{"$ref": refTo(rd, ad, "definitions", ad.defNames[0])}}}
				}
			}
			g.addRootDef("oddHolder", s)
			if r.P(50) {
				g.addRootOp("/odd", obj{"$ref": "#/definitions/oddHolder"})
			}
		}
	}
	if g.on("plusPercent") {
		name := r.Pick([]string{"100%", "a%20b", "%", "x%zz"})
		g.addRootDef(name, obj{"type": "object", "properties": obj{"p": obj{"type": "string"}}})
		g.addRootOp("/pct", obj{"$ref": mkRef("", "definitions", name)})
	}
	if g.on("plusWholeDoc") {
		g.addRootDef("wholeDocUser", obj{"type": "object", "properties": obj{"w": obj{"$ref": "sub/whole.json"}}})
	}
	if g.on("plusRefSiblings") {
		if n, _, ok := g.anyRootDef(); ok {
			g.addRootDef("refWithSiblings", obj{"type": "object", "properties": obj{"s": obj{"$ref": mkRef("", "definitions", n), "description": "sibling", "x-nullable": true}}})
		}
	}
	if g.on("plusOpPtr") {
		paths := sortedKeys(rd.paths)
		if len(paths) > 0 {
			p := paths[r.Intn(len(paths))]
			switch r.Intn(3) {
			case 0:
				g.addRootDef("opPtr", obj{"type": "object", "properties": obj{"o": obj{"$ref": mkRef("", "paths", p)}}})
			case 1:
				g.addRootDef("opPtr", obj{"$ref": mkRef("", "info")})
			case 2:
				g.addRootOp("/opptr", obj{"$ref": mkRef("", "paths", p, "get")})
			}
		}
	}
	if lonelyDangling {
		for _, p := range sortedKeys(rd.paths) {
			if p != "/dangling" && p != "/dangling/{id}" {
				delete(rd.paths, p)
			}
		}
		rd.params, rd.responses, rd.pathItems = obj{}, obj{}, obj{}
		if r.P(50) {
			for _, n := range sortedKeys(rd.defs) {
				if n != "hasDangling" {
					delete(rd.defs, n)
				}
			}
		}
	}
}

// ---------------------------------------------------------------------------------------------

func genFailsafeCase(thorough bool, r *R, seed uint64, index int64) *Case {
	sets := optSetsFor("C09")
	opts := sets[r.Intn(len(sets))]
	if r.P(6) {
		opts.KeepNames = true
	}
	if r.P(10) {
		opts.ContinueOnError = true
	}
	c := &Case{Property: "C09", Kind: "failsafe", Index: index, GenSeed: seed, Opts: opts}
	plus := r.P(55)
	c.Class = "W"
	if plus {
		c.Class = "W+"
	}
	force := forcedFeatures()
	if !plus && force == nil {
		force = map[string]bool{}
	}
	c.Disk, c.Root, c.Features = genBundle(r.Fork(), c.Opts, plus, thorough, force)
	if !plus {
		if err := validateRefsResolve(c.Disk, c.Root); err != nil {
			panic(infraError{fmt.Sprintf("generator produced an unresolvable $ref in W (case seed %d): %v", seed, err)})
		}
	}
	switch x := r.Intn(10); {
	case x < 7:
		c.API = "Flatten"
	case x < 8:
		c.API = "New"
	default:
		c.API = "Schema"
	}
	s := Schedule{}
	if r.P(60) {
		s = perturbedSchedule(r)
	}
	c.Schedules = []Schedule{s}
	return c
}

type apiObs struct {
	flat    *flatObs
	status  string // ok | error | panic | overrun | unloadable
	errText string
	panicTx string
	loads   []loadEvent
	fired   map[string]int
	stats   simrt.Stats
}

func runAPI(c *Case, sched Schedule, faults []Fault) *apiObs {
	if c.API == "Flatten" || c.API == "" {
		o := runFlatten(c, sched, faults, nil)
		a := &apiObs{flat: o, loads: o.Loads, fired: o.Fired, stats: o.Stats, errText: o.Err, panicTx: o.Panic}
		switch {
		case o.Overrun:
			a.status = "overrun"
		case o.Panic != "":
			a.status = "panic"
		case o.LoadErr != "":
			a.status = "unloadable"
		case o.Failed:
			a.status = "error"
		default:
			a.status = "ok"
		}
		return a
	}
	a := &apiObs{}
	disk := &simDisk{files: c.Disk, faults: faults, keyPerm: sched.KeyPerm, fired: map[string]int{}}
	rootBytes, ok := disk.content(c.Root)
	if !ok {
		panic(infraError{"case has no root document"})
	}
	budget := budgetOf(c)
	if c.StepBudget == 0 && c.API == "Schema" {
		budget = 600_000
	}
	cfg, _ := sched.config(budget)
	curDisk = disk
	simrt.Begin(cfg)
	var unloadable bool
	var errs []string
	p, over := guarded(func() {
		doc := new(spec.Swagger)
		if err := json.Unmarshal([]byte(rootBytes), doc); err != nil {
			unloadable = true
			return
		}
		an := analysis.New(doc)
		if c.API == "New" {
			return
		}
		refs := an.AllDefinitions()
		names := make([]string, 0, len(refs))
		byName := map[string]*spec.Schema{}
		for _, sr := range refs {
			names = append(names, sr.Name)
			byName[sr.Name] = sr.Schema
		}
		sort.Strings(names)
		for _, n := range names {
			if _, err := analysis.Schema(analysis.SchemaOpts{Schema: byName[n], Root: doc, BasePath: c.Root}); err != nil {
				errs = append(errs, err.Error())
			}
		}
	})
	a.stats = simrt.End()
	curDisk = nil
	a.loads, a.fired = disk.log, disk.fired
	a.panicTx = p
	switch {
	case over:
		a.status = "overrun"
	case p != "":
		a.status = "panic"
	case unloadable:
		a.status = "unloadable"
	case len(errs) > 0:
		a.status = "error"
		a.errText = errs[0]
	default:
		a.status = "ok"
	}
	return a
}

func hasFeature(c *Case, f string) bool {
	for _, x := range c.Features {
		if x == f {
			return true
		}
	}
	return false
}

func plusFeatures(c *Case) string {
	var fs []string
	for _, f := range c.Features {
		if strings.HasPrefix(f, "plus") {
			fs = append(fs, f)
		}
	}
	return strings.Join(fs, "+")
}

func evalFailsafe(c *Case) *Verdict {
	v := &Verdict{Index: c.Index}
	sched := Schedule{}
	if len(c.Schedules) > 0 {
		sched = c.Schedules[0]
	}
	api := c.API
	if api == "" {
		api = "Flatten"
	}
	bundleHash := uint64(0)
	for _, p := range sortedKeysS(c.Disk) {
		bundleHash = simrt.Mix(bundleHash, hashStr(p+c.Disk[p]))
	}
	record := func(a *apiObs) {
		v.Evals++
		v.Steps += a.stats.Steps
		if a.stats.Steps > v.MaxSteps {
			v.MaxSteps = a.stats.Steps
		}
		v.Loads += int64(len(a.loads))
		for k, n := range a.fired {
			v.count("fault_fired_"+k, int64(n))
		}
		v.count("status_"+a.status, 1)
		if v.SitePert == nil {
			v.SitePert = map[string]int64{}
		}
		sitePertMap(a.stats, v.SitePert)
	}
	crashCheck := func(a *apiObs, what string) bool {
		switch a.status {
		case "panic":
			v.fail("C09", "panic", api+"@"+crashSig(a.panicTx), fmt.Sprintf("%s %s (options %s): %s", api, what, c.Opts, truncate(a.panicTx, 700)))
			return true
		case "overrun":
			v.fail("C09", "does-not-terminate", api+"|"+modeOf(c.Opts), fmt.Sprintf("%s %s (options %s): no result within the logical budget: %s", api, what, c.Opts, lastOverrun))
			return true
		}
		return false
	}
	v.count("api_"+api, 1)
	v.count("class_"+c.Class, 1)
	v.count("optset_"+c.Opts.String(), 1)

	// explicit replay: a case that carries faults runs exactly those
	if len(c.Faults) > 0 {
		base := runAPI(c, sched, nil)
		record(base)
		a := runAPI(c, sched, c.Faults)
		record(a)
		if !crashCheck(a, fmt.Sprintf("under faults %v", c.Faults)) {
			judgeFault(c, v, api, base, a, c.Faults[0])
		}
		return v
	}

	// fault-free pass
	base := runAPI(c, sched, nil)
	record(base)
	if c.Class == "W+" {
		v.Nontrivial = true
		v.Distinct = append(v.Distinct, simrt.Mix(simrt.Mix(bundleHash, hashStr(c.Opts.String()+api)), 0))
	}
	if crashCheck(base, "fault-free") {
		return v
	}
	if api == "Flatten" && base.status == "ok" && !c.Opts.ContinueOnError {
		if hasFeature(c, "plusDangling") || hasFeature(c, "plusMissingFile") || hasFeature(c, "plusDanglingPart") {
			sig := "dangling-local-or-remote"
			if hasFeature(c, "plusMissingFile") {
				sig = "missing-file"
			}
			v.fail("C09", "silent-success-despite-unresolvable-ref", sig+"|"+modeOf(c.Opts), fmt.Sprintf("Flatten (options %s) returned nil although the bundle contains a $ref that cannot be resolved (%s)", c.Opts, plusFeatures(c)))
			return v
		}
	}
	L := len(base.loads)
	v.count("loads_fault_free", int64(L))
	if L == 0 {
		return v
	}
	// every k in 1..L x every kind; plus every loaded path dead
	kinds := []string{"enoent", "eio", "enoent-from", "short", "torn"}
	var plans []Fault
	for k := 1; k <= L; k++ {
		for _, kind := range kinds {
			f := Fault{K: k, Kind: kind}
			if kind == "short" {
				f.N = 1 + int(simrt.Mix(c.GenSeed, uint64(k))%97)
			}
			if kind == "torn" {
				f.N = int(simrt.Mix(c.GenSeed, uint64(k)+77) % 17)
			}
			plans = append(plans, f)
		}
	}
	seenPath := map[string]bool{}
	for _, ev := range base.loads {
		if !seenPath[ev.Path] {
			seenPath[ev.Path] = true
			plans = append(plans, Fault{Kind: "dead", Path: ev.Path})
		}
	}
	for _, f := range plans {
		heartbeat()
		a := runAPI(c, sched, []Fault{f})
		record(a)
		fired := 0
		for _, n := range a.fired {
			fired += n
		}
		if fired > 0 {
			v.Nontrivial = true
			v.Distinct = append(v.Distinct, simrt.Mix(simrt.Mix(bundleHash, hashStr(c.Opts.String()+api)), hashStr(fmt.Sprintf("%d|%s|%s", f.K, f.Kind, f.Path))))
		} else {
			v.count("fault_configured_not_fired", 1)
		}
		if crashCheck(a, fmt.Sprintf("under fault %s@%d%s", f.Kind, f.K, f.Path)) {
			v.Case = nil
			c.Faults = []Fault{f}
			return v
		}
		if fired > 0 && judgeFault(c, v, api, base, a, f) {
			c.Faults = []Fault{f}
			return v
		}
	}
	return v
}

// judgeFault applies the fail-safe oracle to a run in which a load fault fired. Returns true on failure.
func judgeFault(c *Case, v *Verdict, api string, base, a *apiObs, f Fault) bool {
	if api != "Flatten" || c.Opts.ContinueOnError || base.status != "ok" {
		return false
	}
	if a.status != "ok" {
		return false // an error (or unloadable root) is the expected, safe outcome
	}
	persistent := f.Kind == "enoent-from" || f.Kind == "dead"
	if persistent {
		v.fail("C09", "silent-success-despite-load-failure", f.Kind+"|"+modeOf(c.Opts), fmt.Sprintf("Flatten (options %s) returned nil although every load from #%d on / of %s failed (fault %s)", c.Opts, f.K, f.Path, f.Kind))
		return true
	}
	// transient fault survived: the result must then be a complete, correct result — never a silent half-result
	if cl, d := checkMeaningTolerant(c.Disk, c.Root, a.flat.Out, c.Opts); cl != "" && c.Class == "W" {
		v.fail("C09", "silent-half-result-after-transient-fault", f.Kind+"|"+modeOf(c.Opts)+"|"+cl, fmt.Sprintf("Flatten (options %s) returned nil after fault %s@%d but the output does not mean the same as the bundle: %s", c.Opts, f.Kind, f.K, d))
		return true
	}
	if !c.Opts.Expand && c.Class == "W" {
		if cl, _, d := checkCanonical(a.flat.Out, false); cl != "" {
			v.fail("C09", "silent-half-result-after-transient-fault", f.Kind+"|"+modeOf(c.Opts)+"|"+cl, fmt.Sprintf("Flatten (options %s) returned nil after fault %s@%d but the output is not self-contained: %s", c.Opts, f.Kind, f.K, d))
			return true
		}
	}
	// Strict reading of "if a referenced document cannot be loaded … Flatten returns an error rather than reporting
	// success": the load failed once, Flatten must say so even if a later retry happened to succeed. (DESIGN.md §4 C09
	// planned to relax this for transient faults if the unchanged tree survived them; it never does — 0 survivals in
	// several hundred thousand injected transient faults — so the strict form is asserted.)
	v.fail("C09", "silent-success-despite-load-failure", "transient-"+f.Kind+"|"+modeOf(c.Opts), fmt.Sprintf("Flatten (options %s) returned nil (with a complete result) although load #%d failed (fault %s): the failure was swallowed", c.Opts, f.K, f.Kind))
	return true
}

func sortedKeysS(m map[string]string) []string {
	keys := make([]string, 0, len(m))
	for k := range m {
		keys = append(keys, k)
	}
	sort.Strings(keys)
	return keys
}
