package main

import (
	"bytes"
	"encoding/json"
	"fmt"
	"net/url"
	"sort"
	"strconv"
	"strings"

	"simrt"
)

// ---------------------------------------------------------------------------------------------
// PRNG: one splitmix64 stream per case, derived from VERIF_SEED. No math/rand anywhere.

type R struct{ s uint64 }

func newR(seed uint64) *R { return &R{s: simrt.Mix(seed, 0x5151)} }

func (r *R) U64() uint64 {
	r.s += 0x9e3779b97f4a7c15
	z := r.s
	z = (z ^ (z >> 30)) * 0xbf58476d1ce4e5b9
	z = (z ^ (z >> 27)) * 0x94d049bb133111eb
	return z ^ (z >> 31)
}
func (r *R) Intn(n int) int {
	if n <= 0 {
		return 0
	}
	return int(r.U64() % uint64(n))
}
func (r *R) Range(lo, hi int) int { return lo + r.Intn(hi-lo+1) } // inclusive
func (r *R) P(pct int) bool       { return r.Intn(100) < pct }
func (r *R) Pick(xs []string) string {
	return xs[r.Intn(len(xs))]
}
func (r *R) Pick2(a, b obj) obj {
	if r.P(50) {
		return a
	}
	return b
}
func (r *R) Fork() *R { return &R{s: r.U64()} }
func (r *R) Shuffle(n int, swap func(i, j int)) {
	for i := n - 1; i > 0; i-- {
		swap(i, r.Intn(i+1))
	}
}

// ---------------------------------------------------------------------------------------------
// JSON helpers

type obj = map[string]any

func mustParse(b []byte) any {
	var v any
	dec := json.NewDecoder(bytes.NewReader(b))
	dec.UseNumber()
	if err := dec.Decode(&v); err != nil {
		panic(infraError{fmt.Sprintf("harness: cannot parse JSON: %v: %.200s", err, b)})
	}
	return v
}

func parseJSON(b []byte) (any, error) {
	var v any
	dec := json.NewDecoder(bytes.NewReader(b))
	dec.UseNumber()
	err := dec.Decode(&v)
	return v, err
}

// infraError is a harness/generator failure: reported as exit 2, never as a verdict.
type infraError struct{ msg string }

func (e infraError) Error() string { return e.msg }

func canonJSON(v any) []byte {
	b, err := json.Marshal(v)
	if err != nil {
		panic(infraError{"harness: marshal: " + err.Error()})
	}
	return b
}

// marshalPermuted serialises v with object keys in an order derived from seed (seed 0 = sorted).
func marshalPermuted(v any, seed uint64) []byte {
	if seed == 0 {
		return canonJSON(v)
	}
	var b bytes.Buffer
	writePermuted(&b, v, seed)
	return b.Bytes()
}

func writePermuted(b *bytes.Buffer, v any, seed uint64) {
	switch x := v.(type) {
	case map[string]any:
		keys := make([]string, 0, len(x))
		for k := range x {
			keys = append(keys, k)
		}
		sort.Strings(keys)
		s := simrt.Mix(seed, uint64(len(keys))+uint64(b.Len()))
		for i := len(keys) - 1; i > 0; i-- {
			s = simrt.Mix(s, uint64(i))
			j := int(s % uint64(i+1))
			keys[i], keys[j] = keys[j], keys[i]
		}
		b.WriteByte('{')
		for i, k := range keys {
			if i > 0 {
				b.WriteByte(',')
			}
			kb, _ := json.Marshal(k)
			b.Write(kb)
			b.WriteByte(':')
			writePermuted(b, x[k], seed)
		}
		b.WriteByte('}')
	case []any:
		b.WriteByte('[')
		for i, e := range x {
			if i > 0 {
				b.WriteByte(',')
			}
			writePermuted(b, e, seed)
		}
		b.WriteByte(']')
	default:
		eb, _ := json.Marshal(x)
		b.Write(eb)
	}
}

func deepCopy(v any) any {
	switch x := v.(type) {
	case map[string]any:
		m := make(map[string]any, len(x))
		for k, e := range x {
			m[k] = deepCopy(e)
		}
		return m
	case []any:
		a := make([]any, len(x))
		for i, e := range x {
			a[i] = deepCopy(e)
		}
		return a
	}
	return v
}

func sortedKeys(m map[string]any) []string {
	keys := make([]string, 0, len(m))
	for k := range m {
		keys = append(keys, k)
	}
	sort.Strings(keys)
	return keys
}

func jsonEqual(a, b any) bool { return bytes.Equal(canonJSON(a), canonJSON(b)) }

func asObj(v any) (map[string]any, bool) { m, ok := v.(map[string]any); return m, ok }
func asArr(v any) ([]any, bool)          { a, ok := v.([]any); return a, ok }
func asStr(v any) (string, bool)         { s, ok := v.(string); return s, ok }

// JSON pointer
func ptrEscape(tok string) string {
	return strings.ReplaceAll(strings.ReplaceAll(tok, "~", "~0"), "/", "~1")
}
func ptrUnescape(tok string) string {
	return strings.ReplaceAll(strings.ReplaceAll(tok, "~1", "/"), "~0", "~")
}
func ptrTokens(ptr string) []string {
	if ptr == "" {
		return nil
	}
	parts := strings.Split(strings.TrimPrefix(ptr, "/"), "/")
	for i := range parts {
		parts[i] = ptrUnescape(parts[i])
	}
	return parts
}
func ptrJoin(toks ...string) string {
	var b strings.Builder
	for _, t := range toks {
		b.WriteByte('/')
		b.WriteString(ptrEscape(t))
	}
	return b.String()
}

func walkPtr(doc any, toks []string) (any, bool) {
	cur := doc
	for _, t := range toks {
		switch x := cur.(type) {
		case map[string]any:
			n, ok := x[t]
			if !ok {
				return nil, false
			}
			cur = n
		case []any:
			i, err := strconv.Atoi(t)
			if err != nil || i < 0 || i >= len(x) {
				return nil, false
			}
			cur = x[i]
		default:
			return nil, false
		}
	}
	return cur, true
}

// mkRef renders a $ref the way a URI reference is written: path (may be empty) + '#' + fragment, with the
// fragment percent-encoded as net/url does. toks are raw (unescaped) JSON pointer tokens.
func mkRef(relPath string, toks ...string) string {
	u := url.URL{Path: relPath, Fragment: ptrJoin(toks...)}
	return u.String()
}

// splitRef parses a $ref string: returns the (decoded) document part and the decoded pointer tokens.
func splitRef(ref string) (docPart string, toks []string, hasFragment bool, err error) {
	u, err := url.Parse(ref)
	if err != nil {
		return "", nil, false, err
	}
	docPart = u.Path
	if u.Scheme != "" && u.Scheme != "file" {
		return "", nil, false, fmt.Errorf("unsupported scheme in %q", ref)
	}
	if u.Host != "" {
		return "", nil, false, fmt.Errorf("host in %q", ref)
	}
	hasFragment = strings.Contains(ref, "#")
	return docPart, ptrTokens(u.Fragment), hasFragment, nil
}

func truncate(s string, n int) string {
	if len(s) <= n {
		return s
	}
	return s[:n] + "…"
}

func fnv64(b []byte) uint64 {
	h := uint64(0xcbf29ce484222325)
	for _, c := range b {
		h = (h ^ uint64(c)) * 0x100000001b3
	}
	return h
}

func hashStr(s string) uint64 { return fnv64([]byte(s)) }
