package main

import (
	"fmt"
	"os"
	"path"
	"sort"
	"strings"
	"unicode"
)

// Bundle generator for the class W of the properties (and, with plus=true, the wider class W+ used by C09
// only). Every construct class is an independent swarm flag so that a failing class can be isolated.
// The generator self-checks with the oracle's independent resolver that every $ref it planted resolves
// (W) before a case is used; a failure of that self-check is an infrastructure error (exit 2).

const simRootDir = "/simfs/api"

var plainNames = []string{"pet", "owner", "tag", "item", "order", "user", "thing", "kind", "error", "record",
	"node", "tree", "list", "meta", "data", "value", "Pet", "Tag", "category", "photo", "my_thing", "sub-item", "Order2", "x-ray", "X-Extra"}

// alphabet of the properties: spaces, unicode, '/', '~', '?', '#', brackets and braces (never '%', '.', '"', '\\')
var exoticNames = []string{"a b", "é", "x/y", "t~k", "q?", "h#h", "b[0]", "c{d}", "ünï cödé", "sp ace/sl~ash",
	"x y/z~w", "日本", "w{id}", "m[n]/o", "~tilde", "/lead", "trail/", "q?r#s", " lead space", "?", "{}", "[]", "_", "-", "? ?", "x#1", "x#2"}

func init() {
	// SIM_EXOTIC="a b,é" replaces the pool of exotic names (triage aid: which name classes still fail)
	if v := os.Getenv("SIM_EXOTIC"); v != "" {
		exoticNames = strings.Split(v, ",")
	}
}

// names that are keywords of the Swagger / JSON-schema grammar: legal as definition and property names (they are map
// keys), and a trap for code that recognises the parts of a JSON pointer by their spelling
var keywordNames = []string{"properties", "items", "allOf", "definitions", "parameters", "responses", "schema",
	"additionalProperties", "additionalItems", "paths", "get", "default", "200", "headers", "body"}

var plainProps = []string{"id", "name", "owner", "tags", "kind", "value", "next", "items", "data", "meta", "count", "child", "parent", "status",
	"idx", "names", "metadata", "kinds"}

type gDoc struct {
	path      string
	isRoot    bool
	defNames  []string
	defs      obj
	params    obj
	responses obj
	pathItems obj
	paths     obj
	refFree   map[string]bool
}

type bundleGen struct {
	r         *R
	rootNoRef bool
	feat      map[string]bool
	docs      []*gDoc
	opts      FlatOpts
	plus      bool
	depth     int
	maxDefs   int
	opIDs     map[string]bool
}

func (g *bundleGen) on(f string) bool { return g.feat[f] }

func normName(s string) string {
	var b strings.Builder
	for _, c := range strings.ToLower(s) {
		if unicode.IsLetter(c) || unicode.IsDigit(c) {
			b.WriteRune(c)
		}
	}
	return b.String()
}

func relPath(fromFile, toFile string) string {
	fd := strings.Split(path.Dir(fromFile), "/")
	td := strings.Split(path.Dir(toFile), "/")
	i := 0
	for i < len(fd) && i < len(td) && fd[i] == td[i] {
		i++
	}
	var parts []string
	for j := i; j < len(fd); j++ {
		parts = append(parts, "..")
	}
	parts = append(parts, td[i:]...)
	parts = append(parts, path.Base(toFile))
	return strings.Join(parts, "/")
}

// refTo renders a $ref from document `from` to pointer toks of document `to`.
func refTo(from, to *gDoc, toks ...string) string {
	if from == to {
		return mkRef("", toks...)
	}
	return mkRef(relPath(from.path, to.path), toks...)
}

// refToAlt is refTo with, sometimes, an equivalent alternative spelling of the relative path ('./x/a.json',
// 'x/../x/a.json'): the same document is then referred to under several spellings.
func (g *bundleGen) refToAlt(from, to *gDoc, toks ...string) string {
	if from == to || !g.on("altSpelling") || !g.r.P(50) {
		return refTo(from, to, toks...)
	}
	rp := relPath(from.path, to.path)
	if strings.HasPrefix(rp, "..") {
		return mkRef(rp, toks...)
	}
	if g.r.P(60) {
		return mkRef("./"+rp, toks...)
	}
	if i := strings.Index(rp, "/"); i > 0 {
		return mkRef(rp[:i]+"/../"+rp, toks...)
	}
	return mkRef("./"+rp, toks...)
}

type optSet struct {
	o    FlatOpts
	name string
}

// genBundle builds a bundle. opts are needed because W depends on them (anonymous pointers only under
// Minimal/full, those into shared parameters/responses only without RemoveUnused, KeepNames only single-doc).
func genBundle(r *R, opts FlatOpts, plus bool, thorough bool, force map[string]bool) (disk map[string]string, root string, feats []string) {
	g := &bundleGen{r: r, feat: map[string]bool{}, opts: opts, plus: plus, depth: 3, maxDefs: 6, opIDs: map[string]bool{}}
	if thorough && r.P(30) {
		g.depth = 4
		g.maxDefs = 8
	}
	flag := func(name string, pct int) {
		if v, ok := force[name]; ok {
			g.feat[name] = v
			return
		}
		g.feat[name] = r.P(pct)
	}
	flag("exoticDefNames", 30)
	flag("exoticPropNames", 25)
	flag("recursion", 50)
	flag("collide", 40)
	flag("collideGenerated", 30)
	flag("anonPtr", 45)
	flag("anonPtrShared", 40)
	flag("paramRefs", 50)
	flag("respRefs", 50)
	flag("pathItemRefs", 35)
	flag("tuples", 50)
	flag("allOf", 55)
	flag("maps", 50)
	flag("discriminator", 20)
	flag("auxToAux", 50)
	flag("sharedBody", 40)
	flag("headers", 30)
	flag("noOpIDs", 25)
	flag("caseSiblings", 25)
	flag("multiReferrers", 50)
	flag("auxOnlyViaShared", 12)
	flag("altSpelling", 25)
	flag("untyped", 25)
	flag("unusedShared", 20)
	flag("oddStatusCodes", 20)
	flag("punctNames", 8)
	flag("sameDirTwins", 10)
	flag("rootNoDefs", 10)
	flag("security", 45)
	flag("opMedia", 35)
	flag("paramEnums", 35)
	flag("mangleTwins", 15)
	flag("keywordNames", 12)
	naux := 0
	switch x := r.Intn(10); {
	case x < 2:
		naux = 0
	case x < 5:
		naux = 1
	case x < 8:
		naux = 2
	default:
		naux = 3
	}
	if v, ok := force["naux"]; ok && !v {
		naux = 0
	}
	if opts.KeepNames {
		naux = 0
	}
	if naux == 0 {
		g.feat["auxOnlyViaShared"] = false
		g.feat["rootNoDefs"] = false
	}
	if g.on("rootNoDefs") {
		g.feat["caseSiblings"], g.feat["anonPtr"], g.feat["anonPtrShared"], g.feat["multiReferrers"], g.feat["auxOnlyViaShared"] = false, false, false, false, false
	}
	if g.on("auxOnlyViaShared") {
		// the root holds no schema $ref and no path-item $ref of its own: auxiliary schemas are reached only through
		// cross-file parameter/response $refs
		g.feat["paramRefs"], g.feat["respRefs"] = true, true
		g.feat["pathItemRefs"], g.feat["anonPtr"], g.feat["anonPtrShared"], g.feat["recursion"], g.feat["collideGenerated"] = false, false, false, false, false
		g.rootNoRef = true
	}
	if g.on("mangleTwins") && naux > 0 && !g.on("rootNoDefs") && !g.on("auxOnlyViaShared") && r.P(70) {
		// the twins are most interesting when one of them refers to a colliding import
		g.feat["collide"] = true
	}
	if opts.Expand || opts.Minimal && false {
		g.feat["anonPtr"] = false
	}
	if opts.Expand {
		g.feat["anonPtr"] = false
		g.feat["anonPtrShared"] = false
	}
	if opts.RemoveUnused {
		g.feat["anonPtrShared"] = false
	}
	if plus {
		flag("plusDangling", 25)
		flag("plusDanglingPart", 15)
		flag("plusMissingFile", 20)
		flag("plusDeepPtr", 35)
		flag("plusPtrInPtr", 25)
		flag("plusPtrCycle", 30)
		flag("plusBackRef", 30)
		flag("plusCollideRefs", 35)
		flag("plusContainerRec", 35)
		flag("plusOddHolders", 35)
		flag("plusPercent", 15)
		flag("plusWholeDoc", 20)
		flag("plusRefSiblings", 20)
		flag("plusOpPtr", 20)
	}

	auxPaths := []string{simRootDir + "/sub/a.json", simRootDir + "/sub/deeper/b.json", simRootDir + "/other/c.json", simRootDir + "/sub/a2.json"}
	r.Shuffle(len(auxPaths), func(i, j int) { auxPaths[i], auxPaths[j] = auxPaths[j], auxPaths[i] })
	if g.on("sameDirTwins") && naux >= 2 && !g.on("auxOnlyViaShared") && !g.on("rootNoDefs") {
		// two auxiliary documents in the SAME directory
		rest := []string{}
		for _, p := range auxPaths {
			if p != simRootDir+"/sub/a.json" && p != simRootDir+"/sub/a2.json" {
				rest = append(rest, p)
			}
		}
		auxPaths = append([]string{simRootDir + "/sub/a.json", simRootDir + "/sub/a2.json"}, rest...)
	} else {
		g.feat["sameDirTwins"] = false
	}
	rootPath := simRootDir + "/root.json"
	if plus {
		flag("plusDeepRoot", 15)
	}
	if g.on("plusDeepRoot") {
		// W+ only: the root document lives two directories BELOW the auxiliary documents, so that every cross-file
		// $ref of the root starts with '../../'. W places auxiliary documents in directories nested under the root's;
		// on such parent-relative bundles the unchanged tree imports the same remote definition under two spellings
		// and fails with an error (observed), which fail-safety allows.
		rootPath = simRootDir + "/specs/v1/root.json"
	}
	g.docs = append(g.docs, &gDoc{path: rootPath, isRoot: true})
	for i := 0; i < naux; i++ {
		g.docs = append(g.docs, &gDoc{path: auxPaths[i]})
	}
	for _, d := range g.docs {
		d.defs, d.params, d.responses, d.pathItems, d.paths, d.refFree = obj{}, obj{}, obj{}, obj{}, obj{}, map[string]bool{}
	}

	g.chooseNames()
	for _, d := range g.docs {
		for _, n := range d.defNames {
			d.defs[n] = g.schema(d, g.depth, d.refFree[n], n)
		}
	}
	if g.on("recursion") {
		g.plantRecursion()
	}
	g.breakAliasLoops()
	if g.on("collideGenerated") {
		g.plantGeneratedNameCollisions()
	}
	g.sharedObjects()
	g.rootPaths()
	if g.on("auxOnlyViaShared") {
		g.ensureSharedAuxUse()
	} else {
		g.ensureAuxUsed()
	}
	if g.on("caseSiblings") {
		g.plantCaseSiblings()
	}
	if g.on("collide") && len(g.docs) > 1 && !g.on("rootNoDefs") && !g.on("auxOnlyViaShared") && g.r.P(35) {
		g.plantCollideOpsOnly()
	}
	if g.on("mangleTwins") && !g.on("rootNoDefs") && !g.on("auxOnlyViaShared") && !opts.KeepNames {
		g.plantMangleTwins()
	} else {
		g.feat["mangleTwins"] = false
	}
	if g.on("sameDirTwins") {
		g.plantSameDirTwins()
	}
	if g.on("punctNames") && !g.on("rootNoDefs") {
		// a definition and properties whose names contain no letter or digit at all, holding inline complex schemas
		g.addRootDef("{}", obj{"type": "object", "properties": obj{
			"?": obj{"type": "object", "properties": obj{"v": g.primitive()}},
			"_": obj{"type": "array", "items": []any{g.primitive(), g.primitive()}},
			"n": g.primitive()}})
		if g.r.P(50) {
			g.addRootOp("/punct", obj{"$ref": mkRef("", "definitions", "{}")})
		}
		if len(g.docs) > 1 && g.r.P(60) {
			// two $ref-free definitions of an auxiliary document whose names hold no letter or digit either, reached through
			// a recursive definition of that document (so that Expand imports them too) or directly from the root
			ad := g.docs[1]
			fresh := true
			for _, n := range []string{"?", "[]", "punctNode"} {
				if _, exists := ad.defs[n]; exists {
					fresh = false
				}
			}
			if fresh {
				ad.defNames = append(ad.defNames, "?", "[]", "punctNode")
				ad.defs["?"] = obj{"type": "string", "maxLength": 7}
				ad.defs["[]"] = obj{"type": "boolean"}
				ad.refFree["?"], ad.refFree["[]"] = true, true
				ad.defs["punctNode"] = obj{"type": "object", "properties": obj{
					"q":    obj{"$ref": mkRef("", "definitions", "?")},
					"b":    obj{"$ref": mkRef("", "definitions", "[]")},
					"next": obj{"$ref": mkRef("", "definitions", "punctNode")}}}
				if g.r.P(40) {
					// a punctuation-only-named definition that HOLDS a $ref - to a $ref-free definition of the same document
					// named like a root definition - and has two referrers; the colliding leaf has a shallower referrer too
					rd := g.docs[0]
					leaf := ""
					for _, n := range ad.defNames {
						for _, k := range rd.defNames {
							if ad.refFree[n] && strings.EqualFold(k, n) && isPlainIdent(n) {
								leaf = n
							}
						}
					}
					if leaf == "" {
						for _, k := range rd.defNames {
							free := isPlainIdent(k)
							for _, d := range g.docs[1:] {
								for _, n := range d.defNames {
									if strings.EqualFold(k, n) {
										free = false
									}
								}
							}
							if free {
								leaf = k
								ad.defNames = append(ad.defNames, leaf)
								ad.refFree[leaf] = true
								ad.defs[leaf] = obj{"type": "string", "minLength": 2}
								break
							}
						}
					}
					if leaf != "" {
						ad.defNames = append(ad.defNames, "??")
						shape := obj{"type": "object", "properties": obj{"c": obj{"$ref": mkRef("", "definitions", leaf)}, "d": g.primitive()}}
						if g.r.P(50) {
							shape = obj{"type": "array", "items": obj{"$ref": mkRef("", "definitions", leaf)}}
						}
						ad.defs["??"] = shape
						pn := ad.defs["punctNode"].(obj)["properties"].(obj)
						pn["z1"] = obj{"$ref": mkRef("", "definitions", "??")}
						pn["z2"] = obj{"$ref": mkRef("", "definitions", "??")}
						pn["a0"] = obj{"$ref": mkRef("", "definitions", leaf)}
					}
				}
				if g.r.P(60) {
					g.addRootOp("/punctnode", obj{"$ref": refTo(g.docs[0], ad, "definitions", "punctNode")})
				} else {
					g.addRootOp("/punctleaves", obj{"type": "object", "properties": obj{
						"q": obj{"$ref": refTo(g.docs[0], ad, "definitions", "?")},
						"b": obj{"$ref": refTo(g.docs[0], ad, "definitions", "[]")}}})
				}
			}
		}
	}
	if g.on("anonPtr") && !opts.Expand {
		g.plantAnonPointers()
	}
	if plus {
		g.plantPlus()
	}

	disk = map[string]string{}
	for _, d := range g.docs {
		disk[d.path] = string(canonJSON(g.assemble(d)))
	}
	if plus && g.on("plusWholeDoc") {
		disk[simRootDir+"/sub/whole.json"] = string(canonJSON(obj{"type": "object", "properties": obj{"w": obj{"type": "string"}}}))
	}
	for f, v := range g.feat {
		if v {
			feats = append(feats, f)
		}
	}
	feats = append(feats, fmt.Sprintf("aux%d", naux))
	sort.Strings(feats)
	return disk, g.docs[0].path, feats
}

func (g *bundleGen) assemble(d *gDoc) obj {
	doc := obj{"swagger": "2.0", "info": obj{"title": "t " + path.Base(d.path), "version": "1.0"}, "paths": d.paths}
	if len(d.defs) > 0 {
		doc["definitions"] = d.defs
	}
	if len(d.params) > 0 {
		doc["parameters"] = d.params
	}
	if len(d.responses) > 0 {
		doc["responses"] = d.responses
	}
	if len(d.pathItems) > 0 {
		if d.isRoot {
			doc["x-pathitems"] = d.pathItems
		} else {
			doc["pathItems"] = d.pathItems
		}
	}
	if d.isRoot {
		if g.r.P(50) {
			doc["consumes"] = []any{"application/json"}
			doc["produces"] = []any{"application/json"}
			if g.r.P(25) {
				doc["consumes"] = []any{"application/xml", "application/json", "application/xml", "text/csv"}
			}
		}
		if g.r.P(30) {
			doc["host"] = "example.org"
			doc["basePath"] = "/v1"
		}
		if g.on("security") {
			doc["securityDefinitions"] = obj{
				"apiKey": obj{"type": "apiKey", "name": "X-Key", "in": "header"},
				"oauth":  obj{"type": "oauth2", "flow": "implicit", "authorizationUrl": "http://a/auth", "scopes": obj{"read": "r", "write": "w"}},
				"basic":  obj{"type": "basic"},
			}
			switch g.r.Intn(4) {
			case 0:
				doc["security"] = []any{obj{"apiKey": []any{}}}
			case 1:
				doc["security"] = []any{obj{"oauth": []any{"read"}}, obj{"basic": nil}}
			case 2:
				doc["security"] = []any{obj{"apiKey": nil}}
			}
		}
		if g.on("opMedia") && g.r.P(50) {
			doc["tags"] = []any{obj{"name": "pets", "description": "p"}}
		}
	}
	return doc
}

func (g *bundleGen) freshName(used map[string]bool, exotic bool) string {
	for try := 0; try < 50; try++ {
		var n string
		if g.on("keywordNames") && g.r.P(35) {
			n = g.r.Pick(keywordNames)
		} else if exotic && g.r.P(60) {
			n = g.r.Pick(exoticNames)
		} else {
			n = g.r.Pick(plainNames)
			if g.r.P(20) {
				n += fmt.Sprint(g.r.Intn(3))
			}
		}
		if !used[n] {
			used[n] = true
			return n
		}
	}
	n := fmt.Sprintf("gen%d", len(used))
	used[n] = true
	return n
}

func (g *bundleGen) chooseNames() {
	// per-document names; collisions across documents are planted deliberately and otherwise avoided, so that
	// "colliding import => $ref-free" can be enforced by construction
	globalNorm := map[string]int{}
	for di, d := range g.docs {
		used := map[string]bool{}
		n := g.r.Range(1, g.maxDefs)
		if d.isRoot && g.on("rootNoDefs") && len(g.docs) > 1 {
			n = 0 // the root document has no "definitions" section at all; auxiliary schemas are referred to from operations
		}
		for i := 0; i < n; i++ {
			var name string
			for try := 0; ; try++ {
				name = g.freshName(used, g.on("exoticDefNames"))
				nn := normName(name)
				if _, clash := globalNorm[nn]; !clash || try > 30 {
					break
				}
				delete(used, name)
				// accidental clash: retry (deliberate ones are planted below)
				if try > 20 {
					name = fmt.Sprintf("%sx%d%d", name, di, i)
					used[name] = true
					break
				}
			}
			globalNorm[normName(name)]++
			d.defNames = append(d.defNames, name)
		}
	}
	if g.on("collide") && len(g.docs) > 1 {
		// planted collisions: an auxiliary definition named like a root (or other auxiliary) definition, exactly or
		// up to case; the auxiliary one is $ref-free (W); in W+ it may carry $refs
		k := g.r.Range(1, 3)
		for i := 0; i < k; i++ {
			ad := g.docs[1+g.r.Intn(len(g.docs)-1)]
			src := g.docs[g.r.Intn(len(g.docs))]
			if src == ad || len(src.defNames) == 0 {
				src = g.docs[0]
			}
			if len(src.defNames) == 0 {
				continue
			}
			base := src.defNames[g.r.Intn(len(src.defNames))]
			name := base
			switch g.r.Intn(3) {
			case 1:
				name = upperFirst(base)
			case 2:
				name = strings.ToLower(base)
			}
			if _, exists := ad.defs[name]; exists || contains(ad.defNames, name) {
				continue
			}
			ad.defNames = append(ad.defNames, name)
			globalNorm[normName(name)]++
		}
	}
	if g.on("collideGenerated") && len(g.docs[0].defNames) > 0 {
		// names Flatten would generate itself: <def><Prop>, <x>OAIGen, <x>OAIGen1
		rd := g.docs[0]
		if len(rd.defNames) > 0 {
			base := rd.defNames[g.r.Intn(len(rd.defNames))]
			cands := []string{base + "OAIGen", base + "OAIGen1", base + "Owner", base + "Items", base + "Tuple0",
				strings.ToLower(base) + "owner", strings.ToUpper(base) + "OWNER", strings.ToLower(base) + "items", strings.ToLower(base) + "data",
				upperFirst(base) + "Owner", base + "AllOf1", base + "Data", base + "AdditionalProperties", base + "Anon"}
			for i := 0; i < g.r.Range(1, 3); i++ {
				c := g.r.Pick(cands)
				if !contains(rd.defNames, c) {
					rd.defNames = append(rd.defNames, c)
					globalNorm[normName(c)]++
				}
			}
		}
	}
	// every auxiliary definition whose normalised name occurs more than once in the bundle is $ref-free
	for _, d := range g.docs[1:] {
		for _, n := range d.defNames {
			if globalNorm[normName(n)] > 1 {
				if !(g.plus && g.on("plusCollideRefs")) {
					d.refFree[n] = true
				}
			}
		}
	}
}

func isPlainIdent(s string) bool {
	for _, c := range s {
		if !(unicode.IsLetter(c) || unicode.IsDigit(c)) || c > 127 {
			return false
		}
	}
	return s != ""
}

func upperFirst(s string) string {
	rs := []rune(s)
	if len(rs) == 0 {
		return s
	}
	rs[0] = unicode.ToUpper(rs[0])
	return string(rs)
}

func contains(xs []string, s string) bool {
	for _, x := range xs {
		if x == s {
			return true
		}
	}
	return false
}

func (g *bundleGen) propName(used map[string]bool) string {
	for try := 0; try < 30; try++ {
		var n string
		if g.on("keywordNames") && g.r.P(35) {
			n = g.r.Pick(keywordNames)
		} else if g.on("exoticPropNames") && g.r.P(40) {
			n = g.r.Pick(exoticNames)
		} else {
			n = g.r.Pick(plainProps)
		}
		if !used[n] {
			used[n] = true
			return n
		}
	}
	n := fmt.Sprintf("p%d", len(used))
	used[n] = true
	return n
}

// refTargets lists (doc, name) pairs that a schema in document d may refer to (W).
func (g *bundleGen) pickRefTarget(d *gDoc) (td *gDoc, name string, ok bool) {
	var cands []*gDoc
	cands = append(cands, d)
	if d.isRoot {
		cands = append(cands, g.docs[1:]...)
	} else if g.on("auxToAux") {
		for _, o := range g.docs[1:] {
			if o != d {
				cands = append(cands, o)
			}
		}
	}
	td = cands[g.r.Intn(len(cands))]
	if len(td.defNames) == 0 {
		return nil, "", false
	}
	return td, td.defNames[g.r.Intn(len(td.defNames))], true
}

func (g *bundleGen) refSchema(d *gDoc) (obj, bool) {
	td, name, ok := g.pickRefTarget(d)
	if !ok {
		return nil, false
	}
	return obj{"$ref": g.refToAlt(d, td, "definitions", name)}, true
}

func (g *bundleGen) primitive() obj {
	switch g.r.Intn(8) {
	case 0:
		return obj{"type": "integer", "format": "int64"}
	case 1:
		return obj{"type": "number"}
	case 2:
		return obj{"type": "boolean"}
	case 3:
		return obj{"type": "string", "format": "date-time"}
	case 4:
		return obj{"type": "string", "enum": []any{"a", "b"}}
	case 5:
		return obj{"type": "string", "pattern": "^[a-z]+$", "description": "d"}
	case 6:
		return obj{"type": "integer", "minimum": 1, "maximum": 10}
	}
	return obj{"type": "string"}
}

// schema generates a schema for document d. owner is the definition being generated ("" outside definitions).
func (g *bundleGen) schema(d *gDoc, depth int, noRef bool, owner string) obj {
	s := g.schemaTyped(d, depth, noRef, owner)
	// the "type" keyword is optional: sometimes an array / tuple / object goes without it
	if g.on("untyped") && g.r.P(20) {
		if t, _ := s["type"].(string); t == "array" || t == "object" {
			_, isTuple := s["items"].([]any)
			// (tuples keep their type: an untyped tuple is classified as a plain schema by the library, and the
			// properties' grammar only has typed tuples)
			if _, isRef := refOf(s); !isRef && !isTuple && (s["items"] != nil || s["properties"] != nil || s["additionalProperties"] != nil) {
				delete(s, "type")
			}
		}
	}
	return s
}

func (g *bundleGen) schemaTyped(d *gDoc, depth int, noRef bool, owner string) obj {
	r := g.r
	if d.isRoot && g.rootNoRef {
		noRef = true
	}
	if depth <= 0 {
		if !noRef && r.P(40) {
			if s, ok := g.refSchema(d); ok {
				return s
			}
		}
		return g.primitive()
	}
	for {
		switch r.Intn(10) {
		case 0, 1:
			return g.primitive()
		case 2, 3:
			if noRef {
				continue
			}
			if s, ok := g.refSchema(d); ok {
				return s
			}
		case 4, 5:
			// object with properties
			used := map[string]bool{}
			props := obj{}
			n := r.Range(1, 3)
			var req []any
			for i := 0; i < n; i++ {
				pn := g.propName(used)
				props[pn] = g.schema(d, depth-1, noRef, owner)
				if r.P(30) {
					req = append(req, pn)
				}
			}
			s := obj{"type": "object", "properties": props}
			if len(req) > 0 {
				s["required"] = req
			}
			if g.on("maps") && r.P(20) {
				if r.P(50) {
					s["additionalProperties"] = g.schema(d, depth-1, noRef, owner)
				} else {
					s["additionalProperties"] = r.P(50)
				}
			}
			if r.P(20) {
				s["description"] = "obj"
			}
			return s
		case 6:
			if !g.on("maps") {
				continue
			}
			return obj{"type": "object", "additionalProperties": g.schema(d, depth-1, noRef, owner)}
		case 7:
			a := obj{"type": "array", "items": g.schema(d, depth-1, noRef, owner)}
			if g.on("tuples") && r.P(12) {
				// additionalItems next to a single items schema (legal, if unusual): one more $ref holder kind
				a["additionalItems"] = g.schema(d, depth-1, noRef, owner)
				if r.P(30) {
					delete(a, "items")
				}
			}
			return a
		case 8:
			if !g.on("tuples") {
				continue
			}
			n := r.Range(1, 3)
			var items []any
			for i := 0; i < n; i++ {
				items = append(items, g.schema(d, depth-1, noRef, owner))
			}
			s := obj{"type": "array", "items": items}
			switch r.Intn(3) {
			case 0:
				s["additionalItems"] = g.schema(d, depth-1, noRef, owner)
			case 1:
				s["additionalItems"] = false
			}
			return s
		case 9:
			if g.on("discriminator") && r.P(30) {
				return obj{"type": "object", "discriminator": "kind", "required": []any{"kind"},
					"properties": obj{"kind": obj{"type": "string"}}}
			}
			if !g.on("allOf") {
				continue
			}
			n := r.Range(1, 3)
			var all []any
			for i := 0; i < n; i++ {
				all = append(all, g.schema(d, depth-1, noRef, owner))
			}
			s := obj{"allOf": all}
			// a composition seldom comes bare: it may carry a type, properties of its own, additionalProperties, a description
			if r.P(30) {
				s["type"] = "object"
			}
			if g.on("maps") && r.P(25) {
				if r.P(50) {
					s["additionalProperties"] = g.schema(d, depth-1, noRef, owner)
				} else {
					s["additionalProperties"] = true
				}
			}
			if r.P(20) {
				s["properties"] = obj{g.propName(map[string]bool{}): g.schema(d, depth-1, noRef, owner)}
			}
			if r.P(15) {
				s["description"] = "composed"
			}
			return s
		}
	}
}

// plantRecursion adds self- and mutually recursive definitions, including arrays/maps of themselves.
func (g *bundleGen) plantRecursion() {
	r := g.r
	for _, d := range g.docs {
		if len(d.defNames) == 0 || !r.P(60) {
			continue
		}
		// pick non ref-free definitions
		var names []string
		for _, n := range d.defNames {
			if !d.refFree[n] {
				names = append(names, n)
			}
		}
		if len(names) == 0 {
			continue
		}
		a := names[r.Intn(len(names))]
		self := obj{"$ref": refTo(d, d, "definitions", a)}
		switch r.Intn(5) {
		case 0: // object with property of its own type
			d.defs[a] = obj{"type": "object", "properties": obj{"next": self, "value": g.primitive()}}
		case 1: // array of itself
			d.defs[a] = obj{"type": "array", "items": self}
		case 2: // map of itself
			d.defs[a] = obj{"type": "object", "additionalProperties": self}
		case 3: // object with array of itself
			d.defs[a] = obj{"type": "object", "properties": obj{"children": obj{"type": "array", "items": self}}}
		case 4: // mutual recursion, possibly across documents
			td, b, ok := g.pickRefTarget(d)
			if !ok || td.refFree[b] || (td == d && b == a) {
				d.defs[a] = obj{"type": "object", "properties": obj{"next": self}}
				break
			}
			if td != d && (td.isRoot || (!d.isRoot && !g.on("auxToAux"))) {
				break
			}
			d.defs[a] = obj{"type": "object", "properties": obj{"peer": obj{"$ref": refTo(d, td, "definitions", b)}}}
			// b refers back to a only if that direction is allowed in W (aux never refers to the root)
			if td == d || (!d.isRoot && g.on("auxToAux")) {
				td.defs[b] = obj{"type": "object", "properties": obj{"back": obj{"$ref": refTo(td, d, "definitions", a)}, "n": g.primitive()}}
			}
		}
	}
}

// plantGeneratedNameCollisions adds root definitions bearing exactly (or up to case) the names full flattening will
// generate for inline complex schemas that really exist in the root definitions, one and two levels deep
// (<def><Prop>, <def><Prop><Prop2>). The added definitions are $ref-free and never collide with a definition of an
// auxiliary document (that would change which imports must be $ref-free).
func (g *bundleGen) plantGeneratedNameCollisions() {
	rd := g.docs[0]
	taken := map[string]bool{}
	for _, d := range g.docs {
		for _, n := range d.defNames {
			taken[normName(n)] = true
		}
	}
	var cands []string
	isComplex := func(v any) (obj, bool) {
		m, ok := asObj(v)
		if !ok {
			return nil, false
		}
		if p, ok := asObj(m["properties"]); ok && len(p) > 0 {
			return m, true
		}
		return nil, false
	}
	for _, base := range rd.defNames {
		if !isPlainIdent(base) {
			continue
		}
		body, ok := isComplex(rd.defs[base])
		if !ok {
			continue
		}
		props, _ := asObj(body["properties"])
		for _, p1 := range sortedKeys(props) {
			inner, ok := isComplex(props[p1])
			if !ok || !isPlainIdent(p1) {
				continue
			}
			cands = append(cands, base+upperFirst(p1))
			props2, _ := asObj(inner["properties"])
			for _, p2 := range sortedKeys(props2) {
				if _, ok := isComplex(props2[p2]); ok && isPlainIdent(p2) {
					cands = append(cands, base+upperFirst(p1)+upperFirst(p2))
				}
			}
		}
	}
	if len(cands) == 0 {
		return
	}
	for i := 0; i < g.r.Range(1, 2); i++ {
		c := g.r.Pick(cands)
		switch g.r.Intn(3) {
		case 1:
			c = strings.ToLower(c)
		case 2:
			c = upperFirst(c)
		}
		if taken[normName(c)] {
			continue
		}
		taken[normName(c)] = true
		rd.defs[c] = obj{"type": "string", "description": "pre-existing definition named like a generated name"}
		rd.defNames = append(rd.defNames, c)
	}
}

// breakAliasLoops: a definition that is only a $ref (an alias) is fine, a loop of aliases is not a schema
// (the chain never resolves), hence outside W: such a loop is cut by making one member a primitive.
func (g *bundleGen) breakAliasLoops() {
	find := func(fromDoc *gDoc, ref string) (*gDoc, string) {
		docPart, toks, _, err := splitRef(ref)
		if err != nil || len(toks) != 2 || toks[0] != "definitions" {
			return nil, ""
		}
		td := fromDoc
		if docPart != "" {
			abs := path.Join(path.Dir(fromDoc.path), docPart)
			td = nil
			for _, d := range g.docs {
				if d.path == abs {
					td = d
				}
			}
		}
		return td, toks[1]
	}
	for _, d := range g.docs {
		for _, n := range d.defNames {
			cd, cn := d, n
			for hops := 0; hops < 40; hops++ {
				body, _ := asObj(cd.defs[cn])
				r, isRef := refOf(body)
				if !isRef {
					break
				}
				nd, nn := find(cd, r)
				if nd == nil {
					break
				}
				if (nd == d && nn == n) || hops == 39 {
					d.defs[n] = g.primitive()
					break
				}
				cd, cn = nd, nn
			}
		}
	}
}

func (g *bundleGen) simpleParam(name, in string) obj {
	p := obj{"name": name, "in": in, "type": "string"}
	if in == "path" {
		p["required"] = true
	}
	if g.r.P(20) {
		p["type"] = "array"
		p["items"] = obj{"type": "string"}
	}
	if g.r.P(15) {
		p["pattern"] = "^x"
	}
	if g.on("paramEnums") && g.r.P(40) {
		if p["type"] == "array" {
			p["items"] = obj{"type": "string", "enum": []any{"u", "v"}, "pattern": "^[uv]$"}
		} else {
			p["enum"] = []any{"e1", "e2"}
		}
	}
	return p
}

func (g *bundleGen) bodyParam(d *gDoc, name string) obj {
	return obj{"name": name, "in": "body", "schema": g.schema(d, g.r.Range(0, 2), false, "")}
}

func (g *bundleGen) response(d *gDoc) obj {
	resp := obj{"description": "resp"}
	if g.r.P(75) {
		resp["schema"] = g.schema(d, g.r.Range(0, 2), false, "")
	}
	if g.on("headers") && g.r.P(40) {
		resp["headers"] = obj{"X-Rate": obj{"type": "integer"}}
		if g.on("paramEnums") {
			resp["headers"] = obj{"X-Rate": obj{"type": "integer", "enum": []any{1, 2}}, "X-Tag": obj{"type": "string", "pattern": "^t"},
				"X-List": obj{"type": "array", "items": obj{"type": "string", "enum": []any{"a"}, "pattern": "^a"}}}
		}
	}
	return resp
}

func (g *bundleGen) sharedObjects() {
	r := g.r
	for _, d := range g.docs {
		if g.on("paramRefs") || (d.isRoot && (g.on("anonPtrShared") || g.on("unusedShared"))) {
			n := r.Range(1, 2)
			for i := 0; i < n; i++ {
				name := fmt.Sprintf("%sParam%d", strings.TrimSuffix(path.Base(d.path), ".json"), i)
				if g.on("sharedBody") && i == 0 {
					d.params[name] = g.bodyParam(d, "body"+fmt.Sprint(i))
				} else {
					d.params[name] = g.simpleParam("q"+fmt.Sprint(i), "query")
				}
			}
		}
		if g.on("respRefs") || (d.isRoot && (g.on("anonPtrShared") || g.on("unusedShared"))) {
			n := r.Range(1, 2)
			for i := 0; i < n; i++ {
				name := fmt.Sprintf("%sResp%d", strings.TrimSuffix(path.Base(d.path), ".json"), i)
				d.responses[name] = g.response(d)
			}
		}
	}
}

var methods = []string{"get", "put", "post", "delete", "options", "head", "patch"}

func (g *bundleGen) operation(d *gDoc, pathHasID bool, pathLevelBody bool) obj {
	r := g.r
	op := obj{}
	if !g.on("noOpIDs") || r.P(50) {
		for try := 0; try < 20; try++ {
			id := r.Pick([]string{"listPets", "getPet", "addPet", "delPet", "findThings", "updateOrder", "op"}) + fmt.Sprint(r.Intn(4))
			if !g.opIDs[id] {
				g.opIDs[id] = true
				op["operationId"] = id
				break
			}
		}
	}
	var params []any
	hasBody := pathLevelBody
	n := r.Range(0, 3)
	for i := 0; i < n; i++ {
		switch r.Intn(4) {
		case 0:
			if hasBody {
				continue
			}
			hasBody = true
			params = append(params, g.bodyParam(d, "body"))
		case 1:
			params = append(params, g.simpleParam(fmt.Sprintf("q%d", i), "query"))
		case 2:
			params = append(params, g.simpleParam(fmt.Sprintf("h%d", i), "header"))
		case 3:
			if !g.on("paramRefs") {
				continue
			}
			// $ref to a shared parameter (same doc, or from the root to an auxiliary document)
			td := d
			if d.isRoot && len(g.docs) > 1 && r.P(50) {
				td = g.docs[1+r.Intn(len(g.docs)-1)]
			}
			if len(td.params) == 0 {
				continue
			}
			pn := sortedKeys(td.params)[r.Intn(len(td.params))]
			if tp, _ := asObj(td.params[pn]); tp["in"] == "body" {
				if hasBody {
					continue
				}
				hasBody = true
			}
			params = append(params, obj{"$ref": refTo(d, td, "parameters", pn)})
		}
	}
	if len(params) > 0 {
		op["parameters"] = params
	}
	resps := obj{}
	codes := []string{"200", "201", "404", "default"}
	if g.on("oddStatusCodes") {
		// legal status codes for which net/http knows no reason phrase
		codes = append(codes, "419", "306")
	}
	nr := r.Range(1, 3)
	for i := 0; i < nr; i++ {
		code := codes[r.Intn(len(codes))]
		if g.on("respRefs") && r.P(35) {
			td := d
			if d.isRoot && len(g.docs) > 1 && r.P(50) {
				td = g.docs[1+r.Intn(len(g.docs)-1)]
			}
			if len(td.responses) > 0 {
				rn := sortedKeys(td.responses)[r.Intn(len(td.responses))]
				resps[code] = obj{"$ref": refTo(d, td, "responses", rn)}
				continue
			}
		}
		resps[code] = g.response(d)
	}
	op["responses"] = resps
	if g.on("security") && r.P(50) {
		switch r.Intn(5) {
		case 0:
			op["security"] = []any{} // explicitly empty: disables security for this operation
		case 1:
			op["security"] = []any{obj{"apiKey": []any{}}}
		case 2:
			op["security"] = []any{obj{"oauth": []any{"read", "write"}}, obj{"apiKey": nil}}
		case 3:
			op["security"] = []any{obj{"basic": nil}}
		case 4:
			op["security"] = []any{obj{}, obj{"apiKey": []any{}, "oauth": []any{"read"}}}
		}
	}
	if g.on("opMedia") && r.P(50) {
		if r.P(60) {
			op["consumes"] = []any{"application/xml", "application/json"}
			if r.P(35) {
				op["consumes"] = []any{"application/json", "application/json", "text/plain"} // repeated media type
			}
		}
		if r.P(60) {
			op["produces"] = []any{"text/plain"}
			if r.P(35) {
				op["produces"] = []any{"application/xml", "application/json", "application/xml", "text/csv"}
			}
		}
		if r.P(40) {
			op["tags"] = []any{"pets"}
		}
	}
	return op
}

func (g *bundleGen) pathItem(d *gDoc, hasID bool) obj {
	r := g.r
	pi := obj{}
	pathBody := false
	if hasID {
		pi["parameters"] = []any{obj{"name": "id", "in": "path", "required": true, "type": "string"}}
	}
	if r.P(35) {
		pl, _ := pi["parameters"].([]any)
		for i := 0; i < r.Range(1, 3); i++ {
			pl = append(pl, g.simpleParam(fmt.Sprintf("pq%d", i), "query"))
		}
		pi["parameters"] = pl
	}
	if r.P(15) {
		pl, _ := pi["parameters"].([]any)
		pl = append(pl, g.bodyParam(d, "pbody"))
		pi["parameters"] = pl
		pathBody = true
	}
	n := r.Range(1, 3)
	ms := append([]string(nil), methods...)
	r.Shuffle(len(ms), func(i, j int) { ms[i], ms[j] = ms[j], ms[i] })
	for _, m := range ms[:n] {
		pi[m] = g.operation(d, hasID, pathBody)
	}
	return pi
}

func (g *bundleGen) rootPaths() {
	r := g.r
	rd := g.docs[0]
	templates := []string{"/pets", "/pets/{id}", "/things", "/things/{id}/sub", "/orders", "/a/b/{id}"}
	r.Shuffle(len(templates), func(i, j int) { templates[i], templates[j] = templates[j], templates[i] })
	n := r.Range(1, 3)
	var plainPaths []string
	for i := 0; i < n; i++ {
		t := templates[i]
		hasID := strings.Contains(t, "{id}")
		if g.on("pathItemRefs") && r.P(45) {
			switch k := r.Intn(3); {
			case k == 0:
				nm := fmt.Sprintf("pi%d", i)
				rd.pathItems[nm] = g.pathItem(rd, hasID)
				rd.paths[t] = obj{"$ref": mkRef("", "x-pathitems", nm)}
				continue
			case k == 1 && len(plainPaths) > 0:
				target := plainPaths[r.Intn(len(plainPaths))]
				if strings.Contains(target, "{id}") == hasID {
					rd.paths[t] = obj{"$ref": mkRef("", "paths", target)}
					continue
				}
			case k == 2 && len(g.docs) > 1:
				ad := g.docs[1+r.Intn(len(g.docs)-1)]
				nm := fmt.Sprintf("pi%d", i)
				ad.pathItems[nm] = g.pathItem(ad, hasID)
				rd.paths[t] = obj{"$ref": refTo(rd, ad, "pathItems", nm)}
				continue
			}
		}
		rd.paths[t] = g.pathItem(rd, hasID)
		plainPaths = append(plainPaths, t)
	}
}

// ensureAuxUsed makes sure each auxiliary document is reachable from the root (otherwise it is dead weight).
func (g *bundleGen) ensureAuxUsed() {
	rd := g.docs[0]
	for _, ad := range g.docs[1:] {
		if len(ad.defNames) == 0 {
			continue
		}
		// reference each ref-free (colliding) definition and one more from the root so that they get imported
		var want []string
		for _, n := range ad.defNames {
			if ad.refFree[n] || g.r.P(35) {
				want = append(want, n)
			}
		}
		if len(want) == 0 {
			want = append(want, ad.defNames[0])
		}
		for i, n := range want {
			holder := fmt.Sprintf("uses%s%d", strings.TrimSuffix(path.Base(ad.path), ".json"), i)
			ref := obj{"$ref": g.refToAlt(rd, ad, "definitions", n)}
			if g.on("rootNoDefs") {
				short := strings.TrimSuffix(path.Base(ad.path), ".json")
				if g.r.P(50) {
					g.addRootOp(fmt.Sprintf("/use%s%d", short, i), ref)
				} else {
					g.addRootOp(fmt.Sprintf("/use%s%d", short, i), obj{"type": "array", "items": ref})
				}
				// more referrers, all of them at operation level
				for u := 0; u < g.r.Range(0, 3); u++ {
					g.addRootOp(fmt.Sprintf("/%s%s%d%d", []string{"a", "m", "z"}[g.r.Intn(3)], short, i, u), obj{"$ref": g.refToAlt(rd, ad, "definitions", n)})
				}
				continue
			}
			switch g.r.Intn(4) {
			case 0:
				rd.defs[holder] = obj{"type": "object", "properties": obj{"ext": ref}}
				if g.on("collideGenerated") && g.r.P(35) {
					// an existing definition already bears (up to case) the name Flatten would generate for this location
					taken := upperFirst(holder) + "Ext"
					if g.r.P(50) {
						taken = holder + "Ext"
					}
					if _, exists := rd.defs[taken]; !exists {
						rd.defs[taken] = obj{"type": "string", "description": "pre-existing"}
						rd.defNames = append(rd.defNames, taken)
					}
				}
			case 1:
				rd.defs[holder] = obj{"type": "array", "items": ref}
			case 2:
				rd.defs[holder] = obj{"allOf": []any{ref, obj{"type": "object", "properties": obj{"extra": g.primitive()}}}}
			case 3:
				rd.defs[holder] = ref
			}
			rd.defNames = append(rd.defNames, holder)
			if g.on("multiReferrers") && g.r.P(60) {
				// further referrers of the same imported definition, at other kinds of places
				for u := 0; u < g.r.Range(1, 4); u++ {
					ref2 := obj{"$ref": g.refToAlt(rd, ad, "definitions", n)}
					switch g.r.Intn(4) {
					case 0:
						h2 := fmt.Sprintf("%sAlso%d", holder, u)
						rd.defs[h2] = obj{"type": "object", "properties": obj{"at": ref2, "n": g.primitive()}}
						rd.defNames = append(rd.defNames, h2)
					case 1:
						h2 := fmt.Sprintf("%sList%d", holder, u)
						rd.defs[h2] = obj{"type": "array", "items": ref2}
						rd.defNames = append(rd.defNames, h2)
					case 2:
						g.addRootOp(fmt.Sprintf("/also%s%d%d", strings.TrimSuffix(path.Base(ad.path), ".json"), i, u), ref2)
					case 3:
						g.addRootOp(fmt.Sprintf("/alsoin%s%d%d", strings.TrimSuffix(path.Base(ad.path), ".json"), i, u),
							obj{"type": "object", "properties": obj{"deep": obj{"type": "object", "properties": obj{"at": ref2}}}})
					}
				}
			}
		}
	}
}

// ensureSharedAuxUse: every auxiliary document is reached from the root only through a parameter or response $ref.
func (g *bundleGen) ensureSharedAuxUse() {
	rd := g.docs[0]
	for i, ad := range g.docs[1:] {
		if len(ad.responses) == 0 {
			ad.responses[fmt.Sprintf("auxResp%d", i)] = g.response(ad)
		}
		rn := sortedKeys(ad.responses)[0]
		// make sure that response carries a schema with a $ref local to the auxiliary document
		if len(ad.defNames) > 0 {
			resp, _ := asObj(ad.responses[rn])
			resp["schema"] = obj{"type": "object", "properties": obj{"via": obj{"$ref": refTo(ad, ad, "definitions", ad.defNames[0])}}}
			if g.r.P(50) {
				resp["schema"] = obj{"$ref": refTo(ad, ad, "definitions", ad.defNames[0])}
			}
		}
		op := obj{"responses": obj{"200": obj{"$ref": refTo(rd, ad, "responses", rn)}}}
		if len(ad.params) > 0 && g.r.P(60) {
			op["parameters"] = []any{obj{"$ref": refTo(rd, ad, "parameters", sortedKeys(ad.params)[0])}}
		}
		rd.paths[fmt.Sprintf("/shared%d", i)] = obj{"get": op}
	}
}

// plantSameDirTwins: two auxiliary documents of one directory each own a $ref-free definition of the same name
// ("twinLeaf", different content) which a recursive definition of the same document (different names: twinNodeA /
// twinNodeB) refers to by a fragment-only $ref; the root refers to both recursive definitions.
func (g *bundleGen) plantSameDirTwins() {
	rd := g.docs[0]
	if len(g.docs) < 3 {
		return
	}
	for _, d := range g.docs {
		for _, n := range d.defNames {
			if nn := normName(n); nn == "twinleaf" || nn == "twinnodea" || nn == "twinnodeb" {
				return
			}
		}
	}
	for i, ad := range g.docs[1:3] {
		leafType := []string{"string", "integer"}[i]
		node := []string{"twinNodeA", "twinNodeB"}[i]
		ad.defs["twinLeaf"] = obj{"type": leafType, "description": "leaf of " + path.Base(ad.path)}
		ad.refFree["twinLeaf"] = true
		ad.defs[node] = obj{"type": "object", "properties": obj{
			"next":    obj{"$ref": mkRef("", "definitions", node)},
			"payload": obj{"$ref": mkRef("", "definitions", "twinLeaf")}}}
		ad.defNames = append(ad.defNames, "twinLeaf", node)
		g.addRootOp(fmt.Sprintf("/twin%d", i), obj{"$ref": refTo(rd, ad, "definitions", node)})
	}
}

// plantCaseSiblings adds keys that differ only by letter case at the same depth (definitions 'Order'/'order',
// sibling properties 'Id'/'id'), each holding an inline complex schema at the same sub-location, so that both
// claim the same generated name.
func (g *bundleGen) plantCaseSiblings() {
	_ = g.docs[0]
	swapCase := func(s string) string {
		rs := []rune(s)
		if len(rs) == 0 {
			return s
		}
		if unicode.IsUpper(rs[0]) {
			rs[0] = unicode.ToLower(rs[0])
		} else {
			rs[0] = unicode.ToUpper(rs[0])
		}
		return string(rs)
	}
	inner := func(tag string) obj {
		return obj{"type": "object", "properties": obj{"detail": obj{"type": "object", "properties": obj{"v" + tag: g.primitive()}}, "n": g.primitive()}}
	}
	// the pair must not collide (up to case/punctuation) with any definition of an auxiliary document: a colliding
	// import has to be $ref-free in W, and that was decided when the names were chosen
	taken := map[string]bool{}
	for _, d := range g.docs {
		for _, n := range d.defNames {
			taken[normName(n)] = true
		}
	}
	var cands []string
	for _, c := range []string{"widget", "Gizmo", "basket", "Crate", "sprocket"} {
		if !taken[normName(c)] {
			cands = append(cands, c)
		}
	}
	if len(cands) > 0 {
		base := g.r.Pick(cands)
		g.addRootDef(base, inner("1"))
		g.addRootDef(swapCase(base), inner("2"))
		if g.r.P(40) {
			// two existing definitions that differ only by case and both collide with the name generated for
			// <base>.detail
			g.addRootDef(upperFirst(base)+"Detail", obj{"type": "string"})
			g.addRootDef(strings.ToLower(base)+"detail", obj{"type": "integer"})
		}
		if g.r.P(40) {
			g.addRootOp("/case"+base, obj{"$ref": mkRef("", "definitions", base)})
		}
	}
	if g.r.P(50) {
		// two paths that differ only by letter case inside a word, same method, no operationId, each with an inline
		// complex schema: the names generated for them differ only by case
		rd := g.docs[0]
		m := methods[g.r.Intn(len(methods))]
		pair := [][2]string{{"/userProfile", "/userprofile"}, {"/taskList", "/tasklist"}, {"/v1/itemSet", "/v1/itemset"}}[g.r.Intn(3)]
		for i, pth := range pair {
			if _, exists := rd.paths[pth]; exists {
				continue
			}
			body := obj{"type": "object", "properties": obj{fmt.Sprintf("f%d", i): g.primitive(), "nested": obj{"type": "object", "properties": obj{fmt.Sprintf("g%d", i): g.primitive()}}}}
			op := obj{"responses": obj{"200": obj{"description": "ok", "schema": body}}}
			if g.r.P(40) {
				op["parameters"] = []any{obj{"name": "body", "in": "body", "schema": deepCopy(body)}}
			}
			if !g.on("noOpIDs") && g.r.P(50) {
				op["operationId"] = fmt.Sprintf("caseTwin%d", i)
				g.opIDs[fmt.Sprintf("caseTwin%d", i)] = true
			}
			rd.paths[pth] = obj{m: op}
		}
	}
	if g.r.P(50) {
		// sibling properties differing by case inside one definition
		g.addRootDef("caseProps", obj{"type": "object", "properties": obj{
			"Id": obj{"type": "object", "properties": obj{"a": g.primitive()}},
			"id": obj{"type": "object", "properties": obj{"b": g.primitive()}}}})
	}
}

// plantNestedPointers: an anonymous pointer whose target (a simple array or map, direct sub-schema of a root
// definition) itself holds an anonymous pointer to a direct sub-schema of another root definition (acyclic chain).
// C09 lists "pointers nested in pointer targets" under the wider class W+, and the unchanged tree indeed rejects
// them (error), so this construct is planted in W+ only (fail-safety), never in W.
func (g *bundleGen) plantNestedPointers() {
	r := g.r
	g.addRootDef("nestLabel", obj{"type": "object", "properties": obj{"name": obj{"type": "string", "description": "label name"}, "code": obj{"type": "integer"}}})
	inner := obj{"$ref": "#/definitions/nestLabel/properties/name"}
	var tags obj
	if r.P(50) {
		tags = obj{"type": "array", "items": inner}
	} else {
		tags = obj{"type": "object", "additionalProperties": inner}
	}
	g.addRootDef("nestOrder", obj{"type": "object", "properties": obj{"tags": tags, "qty": obj{"type": "integer"}}})
	outer := obj{"$ref": "#/definitions/nestOrder/properties/tags"}
	switch r.Intn(3) {
	case 0:
		g.addRootOp("/nested", outer)
	case 1:
		g.addRootDef("nestUser", obj{"type": "object", "properties": obj{"t": outer}})
	case 2:
		g.addRootOp("/nested", outer)
		g.addRootDef("nestUser", obj{"type": "object", "properties": obj{"t": deepCopy(outer)}})
	}
}

// plantAnonPointers adds $refs that are anonymous JSON pointers (W rules 2 and 3 of DESIGN.md §3.5).
func (g *bundleGen) plantAnonPointers() {
	r := g.r
	rd := g.docs[0]
	type target struct{ toks []string }
	var targets []target
	for _, n := range rd.defNames {
		s, _ := asObj(rd.defs[n])
		if s == nil {
			continue
		}
		if props, ok := asObj(s["properties"]); ok {
			for _, pn := range sortedKeys(props) {
				targets = append(targets, target{[]string{"definitions", n, "properties", pn}})
			}
		}
		switch it := s["items"].(type) {
		case map[string]any:
			targets = append(targets, target{[]string{"definitions", n, "items"}})
		case []any:
			for i := range it {
				targets = append(targets, target{[]string{"definitions", n, "items", fmt.Sprint(i)}})
			}
		}
		if _, ok := asObj(s["additionalProperties"]); ok {
			targets = append(targets, target{[]string{"definitions", n, "additionalProperties"}})
		}
		if _, ok := asObj(s["additionalItems"]); ok {
			targets = append(targets, target{[]string{"definitions", n, "additionalItems"}})
		}
		if all, ok := asArr(s["allOf"]); ok {
			for i := range all {
				targets = append(targets, target{[]string{"definitions", n, "allOf", fmt.Sprint(i)}})
			}
		}
	}
	if g.on("anonPtrShared") {
		for _, pn := range sortedKeys(rd.params) {
			if p, _ := asObj(rd.params[pn]); p != nil && p["schema"] != nil {
				targets = append(targets, target{[]string{"parameters", pn, "schema"}})
			}
		}
		for _, rn := range sortedKeys(rd.responses) {
			if p, _ := asObj(rd.responses[rn]); p != nil && p["schema"] != nil {
				targets = append(targets, target{[]string{"responses", rn, "schema"}})
			}
		}
	}
	if len(targets) == 0 {
		return
	}
	// prefer, sometimes, the direct sub-schema of a root definition that holds the $ref to a colliding import
	var preferred []target
	for _, t := range targets {
		if t.toks[0] != "definitions" {
			continue
		}
		if v, ok := walkPtr(obj{"definitions": rd.defs}, t.toks); ok {
			if ref, isRef := refOf(v); isRef {
				docPart, rtoks, _, err := splitRef(ref)
				if err == nil && docPart != "" && len(rtoks) == 2 {
					for _, ad := range g.docs[1:] {
						if strings.HasSuffix(ad.path, "/"+path.Base(docPart)) && ad.refFree[rtoks[1]] {
							preferred = append(preferred, t)
						}
					}
				}
			}
		}
	}
	k := r.Range(1, 2)
	usePreferred := len(preferred) > 0 && r.P(60)
	if usePreferred {
		k = 1
	}
	if !usePreferred && r.P(20) {
		// two pointers into sibling properties whose names are prefix-related ('id' / 'idx'), holders in both orders
		kindOf := func() obj {
			if r.P(50) {
				return g.primitive()
			}
			return obj{"type": "object", "properties": obj{"v": g.primitive()}}
		}
		g.addRootDef("pfxHolder", obj{"type": "object", "properties": obj{"id": kindOf(), "idx": kindOf(), "other": g.primitive()}})
		shortRef := obj{"$ref": "#/definitions/pfxHolder/properties/id"}
		longRef := obj{"$ref": "#/definitions/pfxHolder/properties/idx"}
		first, second := shortRef, longRef
		if r.P(50) {
			first, second = longRef, shortRef
		}
		switch r.Intn(3) {
		case 0:
			g.addRootDef("pfxUserA", obj{"type": "object", "properties": obj{"p": first}})
			g.addRootDef("pfxUserB", obj{"type": "object", "properties": obj{"p": second}})
		case 1:
			g.addRootOp("/pfxa", first)
			g.addRootOp("/pfxb", second)
		case 2:
			g.addRootOp("/pfxa", first)
			g.addRootDef("pfxUserB", obj{"type": "array", "items": second})
		}
		return
	}
	var sameDef []target
	if !usePreferred && r.P(30) {
		// both pointers into sibling sub-schemas of one definition
		first := targets[r.Intn(len(targets))]
		for _, t := range targets {
			if len(t.toks) >= 2 && len(first.toks) >= 2 && t.toks[0] == first.toks[0] && t.toks[1] == first.toks[1] {
				sameDef = append(sameDef, t)
			}
		}
		if len(sameDef) >= 2 {
			k = 2
		}
	}
	if !usePreferred && len(sameDef) < 2 {
		// bias, sometimes, towards two rarer kinds of target: the COMPLEX schema of a shared parameter/response, and a
		// target whose pointer holds a non-ASCII letter (URL-escaped in the $ref, raw in the key)
		var narrowed []target
		switch {
		case g.on("anonPtrShared") && r.P(30):
			if !g.opts.RemoveUnused {
				rd.responses["complexShared"] = obj{"description": "shared", "schema": obj{"type": "object", "properties": obj{"payload": g.primitive(), "more": obj{"type": "array", "items": g.primitive()}}}}
				rd.paths["/cshared"] = obj{"get": obj{"responses": obj{"200": obj{"$ref": "#/responses/complexShared"}}}}
				narrowed = append(narrowed, target{[]string{"responses", "complexShared", "schema"}})
			}
		case r.P(25):
			for _, t := range targets {
				for _, tok := range t.toks {
					for _, c := range tok {
						if c > 127 && unicode.IsLetter(c) {
							narrowed = append(narrowed, t)
						}
					}
				}
			}
		}
		if len(narrowed) > 0 {
			targets = narrowed
		}
	}
	for i := 0; i < k; i++ {
		t := targets[r.Intn(len(targets))]
		if usePreferred {
			t = preferred[r.Intn(len(preferred))]
		} else if len(sameDef) >= 2 {
			t = sameDef[(i+int(r.s%7))%len(sameDef)]
		}
		ref := obj{"$ref": mkRef("", t.toks...)}
		// holders live in fresh places that are not inside any pointer target: a new definition, or a new
		// operation's body parameter / response
		uses := r.Range(1, 2)
		for u := 0; u < uses; u++ {
			switch r.Intn(4) {
			case 3:
				// the holder is a top-level definition that is nothing but the pointer (an alias)
				name := fmt.Sprintf("ptrAlias%d%d", i, u)
				rd.defs[name] = deepCopy(ref)
				rd.defNames = append(rd.defNames, name)
			case 0:
				name := fmt.Sprintf("ptrHolder%d%d", i, u)
				rd.defs[name] = obj{"type": "object", "properties": obj{"via": deepCopy(ref)}}
				rd.defNames = append(rd.defNames, name)
			case 1:
				name := fmt.Sprintf("ptrList%d%d", i, u)
				rd.defs[name] = obj{"type": "array", "items": deepCopy(ref)}
				rd.defNames = append(rd.defNames, name)
			case 2:
				p := fmt.Sprintf("/ptr%d%d", i, u)
				op := obj{"responses": obj{"200": obj{"description": "ok", "schema": deepCopy(ref)}}}
				if r.P(50) {
					op["parameters"] = []any{obj{"name": "body", "in": "body", "schema": deepCopy(ref)}}
				}
				if !g.on("noOpIDs") {
					op["operationId"] = fmt.Sprintf("ptrOp%d%d", i, u)
				}
				rd.paths[p] = obj{"post": op}
			}
		}
	}
}

// plantMangleTwins: two sibling inline complex properties of one root definition whose names differ but are mangled to
// the same generated name ('x-y' / 'x_y' give <def>XY): full flattening names the second one <def>XYOAIGen, a
// de-duplication artefact that is later merged back. One twin refers to a colliding import when the bundle has one
// (itself imported as <name>OAIGen), and a further definition refers to the same import: two nested OAIGen entries,
// the order of whose merging matters.
func (g *bundleGen) plantMangleTwins() {
	r := g.r
	rd := g.docs[0]
	pairs := [][2]string{{"x-y", "x_y"}, {"part one", "part-one"}, {"k_v", "k v"}, {"in-line", "in line"}}
	pr := pairs[r.Intn(len(pairs))]
	// pr[1] receives the $ref; mostly it is the twin that sorts second, i.e. the one that gets the OAIGen name
	if (pr[0] < pr[1]) != r.P(75) {
		pr[0], pr[1] = pr[1], pr[0]
	}
	var ref obj
	for _, ad := range g.docs[1:] {
		for _, n := range ad.defNames {
			if !ad.refFree[n] {
				continue
			}
			for _, k := range rd.defNames {
				if strings.EqualFold(k, n) && ref == nil {
					ref = obj{"$ref": refTo(rd, ad, "definitions", n)}
				}
			}
		}
	}
	if ref == nil && len(g.docs) > 1 && r.P(70) {
		// no colliding import at hand: make one (a $ref-free definition of an auxiliary document named like a root definition)
		ad := g.docs[1+r.Intn(len(g.docs)-1)]
		for _, k := range rd.defNames {
			free := isPlainIdent(k)
			for _, d := range g.docs[1:] {
				for _, n := range d.defNames {
					if strings.EqualFold(k, n) {
						free = false
					}
				}
			}
			if free {
				ad.defNames = append(ad.defNames, k)
				ad.refFree[k] = true
				ad.defs[k] = r.Pick2(obj{"type": "array", "items": g.primitive()}, obj{"type": "object", "properties": obj{"imported": g.primitive()}})
				ref = obj{"$ref": refTo(rd, ad, "definitions", k)}
				break
			}
		}
	}
	if ref == nil {
		if rs, ok := g.refSchema(rd); ok && r.P(70) {
			ref = rs
		} else {
			ref = g.primitive()
		}
	}
	// the holder mostly sorts before, the further referrer after, the other definitions of the root
	holder := r.Pick([]string{"B", "a1", "Abox", "twins"})
	second := r.Pick([]string{"d", "zlast", "m2"})
	for _, n := range []string{holder, second} {
		for _, k := range rd.defNames {
			if strings.EqualFold(k, n) {
				return
			}
		}
		for _, ad := range g.docs[1:] {
			for _, k := range ad.defNames {
				if strings.EqualFold(k, n) {
					return
				}
			}
		}
	}
	g.addRootDef(holder, obj{"type": "object", "properties": obj{
		pr[0]: obj{"type": "object", "properties": obj{"v": g.primitive()}},
		pr[1]: obj{"type": "object", "properties": obj{"w": deepCopy(ref)}},
	}})
	g.addRootDef(second, obj{"type": "object", "properties": obj{"again": deepCopy(ref)}})
	g.addRootOp("/mangled", obj{"$ref": mkRef("", "definitions", holder)})
	if g.on("anonPtr") && r.P(30) {
		// anonymous pointers to both twins (direct sub-schemas of a root definition)
		g.addRootOp("/twinptr0", obj{"$ref": mkRef("", "definitions", holder, "properties", pr[0])})
		g.addRootOp("/twinptr1", obj{"$ref": mkRef("", "definitions", holder, "properties", pr[1])})
	}
	if r.P(60) {
		g.addRootOp("/mangled2", obj{"$ref": mkRef("", "definitions", second)})
	}
}

// plantCollideOpsOnly: a $ref-free complex definition of an auxiliary document, named like a root definition, whose only
// referrers sit under #/paths of the root: a body parameter declared at PATH level on a templated path (the topmost
// referrer) and one or two operation-level holders.
func (g *bundleGen) plantCollideOpsOnly() {
	r := g.r
	rd := g.docs[0]
	ad := g.docs[1+r.Intn(len(g.docs)-1)]
	var base string
	for _, n := range rd.defNames {
		if !isPlainIdent(n) {
			continue
		}
		free := true
		for _, d := range g.docs[1:] {
			for _, k := range d.defNames {
				if strings.EqualFold(k, n) {
					free = false
				}
			}
		}
		if free {
			base = n
			break
		}
	}
	if base == "" {
		return
	}
	name := base
	if r.P(30) {
		name = upperFirst(base)
	}
	if _, exists := ad.defs[name]; exists {
		return
	}
	ad.defNames = append(ad.defNames, name)
	ad.refFree[name] = true
	ad.defs[name] = obj{"type": "object", "properties": obj{"imported": g.primitive(), "z": obj{"type": "array", "items": g.primitive()}}}
	ref := func() obj { return obj{"$ref": refTo(rd, ad, "definitions", name)} }
	pth := r.Pick([]string{"/things/{id}", "/a b/{key}", "/plain"})
	if _, exists := rd.paths[pth]; exists {
		return
	}
	bodySchema, nOps := ref(), r.Range(1, 2)
	if r.P(50) {
		// the path-level body parameter holds an INLINE complex schema, a property of which refers to the import; with two
		// operations under the path that schema is named once per operation
		bodySchema, nOps = obj{"type": "object", "properties": obj{"x": ref(), "n": g.primitive()}}, 2
	}
	params := []any{obj{"name": "body", "in": "body", "schema": bodySchema}}
	if strings.Contains(pth, "{") {
		pn := pth[strings.Index(pth, "{")+1 : strings.Index(pth, "}")]
		params = append([]any{obj{"name": pn, "in": "path", "required": true, "type": "string"}}, params...)
	}
	pi := obj{"parameters": params}
	ms := append([]string(nil), methods...)
	r.Shuffle(len(ms), func(i, j int) { ms[i], ms[j] = ms[j], ms[i] })
	for _, m := range ms[:nOps] {
		op := obj{"responses": obj{r.Pick([]string{"200", "201", "default"}): obj{"description": "ok", "schema": ref()}}}
		if !g.on("noOpIDs") {
			id := "opsOnly" + upperFirst(m)
			op["operationId"] = id
			g.opIDs[id] = true
		}
		pi[m] = op
	}
	rd.paths[pth] = pi
}
