package main

import (
	"fmt"
	"os"
	"strings"

	"simrt"
)

// genCase derives case number `index` of the batch (property, tier, VERIF_SEED). It is a pure function of
// its arguments: the same VERIF_SEED reproduces the same batch whatever worker executes which case.

func optSetsFor(prop string) []FlatOpts {
	min := FlatOpts{Minimal: true}
	full := FlatOpts{}
	exp := FlatOpts{Expand: true}
	ru := func(o FlatOpts) FlatOpts { o.RemoveUnused = true; return o }
	switch prop {
	case "C02", "C08":
		return []FlatOpts{min, full, ru(min), ru(full)}
	case "C03":
		return []FlatOpts{full, ru(full)}
	case "C05":
		return []FlatOpts{exp, ru(exp)}
	case "C06":
		return []FlatOpts{ru(min), ru(full), ru(exp)}
	case "C07":
		return []FlatOpts{min, full, ru(min), ru(full), exp, ru(exp)}
	}
	return []FlatOpts{min, full, exp, ru(min), ru(full), ru(exp)}
}

func perturbedSchedule(r *R) Schedule {
	ps := []uint32{256, 256, 128, 64, 32}
	return Schedule{Seed: r.U64() | 1, PerturbP: ps[r.Intn(len(ps))], InsertMode: []int{0, 0, 1, 2}[r.Intn(4)]}
}

func caseSeed(verifSeed uint64, prop string, index int64) uint64 {
	return simrt.Mix(simrt.Mix(verifSeed, hashStr(prop)), uint64(index)+1)
}

func genCase(prop, tier string, verifSeed uint64, index int64) *Case {
	seed := caseSeed(verifSeed, prop, index)
	r := newR(seed)
	thorough := tier == "thorough"
	switch prop {
	case "C01", "C02", "C03", "C04", "C05", "C06", "C07", "C08", "C10":
		return genFlattenCase(prop, thorough, r, seed, index)
	case "C09":
		return genFailsafeCase(thorough, r, seed, index)
	case "C16":
		return genReadersCase(thorough, r, seed, index)
	case "C17", "C18":
		return genMixinCase(prop, thorough, r, seed, index)
	}
	panic(infraError{"no generator for property " + prop})
}

// forcedFeatures parses SIM_FORCE="flag=0,flag=1" — a triage aid (isolating a construct class); never set by the
// registered checks.
func forcedFeatures() map[string]bool {
	v := os.Getenv("SIM_FORCE")
	if v == "" {
		return nil
	}
	m := map[string]bool{}
	for _, kv := range strings.Split(v, ",") {
		parts := strings.SplitN(kv, "=", 2)
		if len(parts) == 2 {
			m[parts[0]] = parts[1] == "1"
		}
	}
	return m
}

func genFlattenCase(prop string, thorough bool, r *R, seed uint64, index int64) *Case {
	sets := optSetsFor(prop)
	opts := sets[r.Intn(len(sets))]
	if r.P(8) {
		opts.KeepNames = true // forces a single-document bundle
	}
	c := &Case{Property: prop, Kind: "flatten", Index: index, GenSeed: seed, Class: "W", Opts: opts}
	for try := 0; ; try++ {
		c.Disk, c.Root, c.Features = genBundle(r.Fork(), c.Opts, false, thorough, forcedFeatures())
		if err := validateRefsResolve(c.Disk, c.Root); err != nil {
			panic(infraError{fmt.Sprintf("generator produced an unresolvable $ref (case seed %d): %v", seed, err)})
		}
		if prop == "C07" && c.Opts.Expand && hasRefCycle(c.Disk, c.Root) {
			// C07 claims Expand only for bundles without reference cycle: re-draw (bounded), then fall back to full
			if try < 4 {
				continue
			}
			c.Opts.Expand = false
			c.Disk, c.Root, c.Features = genBundle(r.Fork(), c.Opts, false, thorough, forcedFeatures())
		}
		break
	}
	nPert := 2
	nKey := 0
	switch prop {
	case "C07":
		nPert, nKey = 6, 2
		if thorough {
			nPert, nKey = 24, 4
		}
	case "C05":
		nPert = 3
	default:
		if thorough {
			nPert = 5
		}
	}
	if prop == "C04" && contains(c.Features, "mangleTwins") {
		// nested de-duplication artefacts: the outcome of their merging is the most order-sensitive part of Flatten
		nPert += 6
	}
	c.Schedules = append(c.Schedules, Schedule{Seed: 0, PerturbP: 0})
	for i := 0; i < nPert; i++ {
		c.Schedules = append(c.Schedules, perturbedSchedule(r))
	}
	for i := 0; i < nKey; i++ {
		s := Schedule{KeyPerm: r.U64() | 1}
		if r.P(50) {
			s = perturbedSchedule(r)
			s.KeyPerm = r.U64() | 1
		}
		c.Schedules = append(c.Schedules, s)
	}
	return c
}
