package main

import (
	"encoding/json"
	"fmt"
	"path"
	"reflect"
	"sort"
	"strings"

	"github.com/go-openapi/spec"
)

// Reference models for the Flatten family (C01–C08). Everything here works on raw JSON of the bundle on the
// simulated disk and of the output; nothing calls into package analysis. Normal form ("absent == zero
// value") is obtained by passing objects through the spec model's unmarshal/marshal (trusted base).

type bundleView struct {
	docs     map[string]any // absolute path -> raw parsed JSON
	rootPath string
	norm     map[string]*node
}

type node struct {
	doc    string // document the value lives in (base for relative $refs)
	v      any    // normalised JSON
	id     string // doc#pointer of the resolution target ("" for inline positions)
	defTop string // when the node is the body of a top-level definition of doc: its name
}

func newView(disk map[string]string, rootPath string) (*bundleView, error) {
	bv := &bundleView{docs: map[string]any{}, rootPath: rootPath, norm: map[string]*node{}}
	for p, s := range disk {
		v, err := parseJSON([]byte(s))
		if err != nil {
			// unparsable documents are legal in W+ (they just cannot be resolved into)
			continue
		}
		bv.docs[p] = v
	}
	return bv, nil
}

func normalizeKind(raw any, kind string) (any, error) {
	b := canonJSON(raw)
	var out []byte
	var err error
	switch kind {
	case "schema":
		var s spec.Schema
		if err = json.Unmarshal(b, &s); err == nil {
			out, err = json.Marshal(s)
		}
	case "parameter":
		var s spec.Parameter
		if err = json.Unmarshal(b, &s); err == nil {
			out, err = json.Marshal(s)
		}
	case "response":
		var s spec.Response
		if err = json.Unmarshal(b, &s); err == nil {
			out, err = json.Marshal(s)
		}
	case "pathItem":
		var s spec.PathItem
		if err = json.Unmarshal(b, &s); err == nil {
			out, err = json.Marshal(s)
		}
	case "swagger":
		var s spec.Swagger
		if err = json.Unmarshal(b, &s); err == nil {
			out, err = json.Marshal(s)
		}
	default:
		return nil, fmt.Errorf("unknown kind %s", kind)
	}
	if err != nil {
		return nil, err
	}
	return parseJSON(out)
}

// resolveRaw resolves ref (found in document ctxDoc) to the raw target value.
func (bv *bundleView) resolveRaw(ctxDoc, ref string) (doc string, toks []string, raw any, err error) {
	docPart, toks, _, err := splitRef(ref)
	if err != nil {
		return "", nil, nil, err
	}
	doc = ctxDoc
	if docPart != "" {
		if strings.HasPrefix(docPart, "/") {
			doc = path.Clean(docPart)
		} else {
			doc = path.Join(path.Dir(ctxDoc), docPart)
		}
	}
	d, ok := bv.docs[doc]
	if !ok {
		return doc, toks, nil, fmt.Errorf("document %s not in bundle (ref %q from %s)", doc, ref, ctxDoc)
	}
	raw, ok = walkPtr(d, toks)
	if !ok {
		return doc, toks, nil, fmt.Errorf("pointer %v not found in %s (ref %q from %s)", toks, doc, ref, ctxDoc)
	}
	return doc, toks, raw, nil
}

func (bv *bundleView) resolve(ctxDoc, ref, kind string) (*node, error) {
	doc, toks, raw, err := bv.resolveRaw(ctxDoc, ref)
	if err != nil {
		return nil, err
	}
	id := doc + "#" + ptrJoin(toks...)
	key := kind + "|" + id
	if n, ok := bv.norm[key]; ok {
		return n, nil
	}
	nv, err := normalizeKind(raw, kind)
	if err != nil {
		return nil, fmt.Errorf("target of %q is not a %s: %v", ref, kind, err)
	}
	n := &node{doc: doc, v: nv, id: id}
	if len(toks) == 2 && toks[0] == "definitions" {
		n.defTop = toks[1]
	}
	bv.norm[key] = n
	return n, nil
}

func refOf(v any) (string, bool) {
	m, ok := v.(map[string]any)
	if !ok {
		return "", false
	}
	r, ok := m["$ref"].(string)
	if !ok || r == "" {
		return "", false
	}
	return r, true
}

// follow follows a chain of $refs of the given kind.
func (bv *bundleView) follow(n *node, kind string) (*node, error) {
	for i := 0; ; i++ {
		r, ok := refOf(n.v)
		if !ok {
			return n, nil
		}
		if i > 64 {
			return nil, fmt.Errorf("$ref chain does not end (at %q)", r)
		}
		t, err := bv.resolve(n.doc, r, kind)
		if err != nil {
			return nil, err
		}
		n = t
	}
}

// ---------------------------------------------------------------------------------------------
// bisimulation

type equiv struct {
	in, out  *bundleView
	inDefs   map[string]bool // definition names of the input root
	assumed  map[[2]uintptr]bool
	mismatch string
	steps    int
}

func (e *equiv) failf(where, format string, a ...any) bool {
	if e.mismatch == "" {
		e.mismatch = where + ": " + fmt.Sprintf(format, a...)
	}
	return false
}

var subSchemaMaps = map[string]bool{"properties": true, "patternProperties": true, "definitions": true}
var subSchemaLists = map[string]bool{"allOf": true, "anyOf": true, "oneOf": true}
var subSchemaSingles = map[string]bool{"not": true}
var subSchemaFlex = map[string]bool{"items": true, "additionalProperties": true, "additionalItems": true}

func identity(v any) uintptr {
	if m, ok := v.(map[string]any); ok {
		return reflect.ValueOf(m).Pointer()
	}
	return 0
}

func (e *equiv) schema(a, b *node, where string) bool {
	e.steps++
	if e.steps > 2_000_000 {
		return e.failf(where, "oracle step limit")
	}
	a2, err := e.in.follow(a, "schema")
	if err != nil {
		return e.failf(where, "input side: %v", err)
	}
	b2, err := e.out.follow(b, "schema")
	if err != nil {
		return e.failf(where, "output side: %v", err)
	}
	am, aok := a2.v.(map[string]any)
	bm, bok := b2.v.(map[string]any)
	if !aok || !bok {
		if jsonEqual(a2.v, b2.v) {
			return true
		}
		return e.failf(where, "schema values differ: %s vs %s", truncate(string(canonJSON(a2.v)), 200), truncate(string(canonJSON(b2.v)), 200))
	}
	key := [2]uintptr{identity(am), identity(bm)}
	if e.assumed[key] {
		return true
	}
	e.assumed[key] = true

	ignoreGenLoc := b2.defTop != "" && b2.doc == e.out.rootPath && !e.inDefs[b2.defTop]
	keys := map[string]bool{}
	for k := range am {
		keys[k] = true
	}
	for k := range bm {
		keys[k] = true
	}
	ks := make([]string, 0, len(keys))
	for k := range keys {
		ks = append(ks, k)
	}
	sort.Strings(ks)
	for _, k := range ks {
		av, ain := am[k]
		bv, bin := bm[k]
		if k == "x-go-gen-location" && !ain && (ignoreGenLoc || tolerateGenLoc) {
			continue
		}
		if k == "x-go-gen-location" && ain != bin {
			meaningSig = "gen-location-marker-outside-new-definition"
		}
		if ain != bin {
			return e.failf(where, "keyword %q present on one side only (input %v, output %v)", k, ain, bin)
		}
		w := where + "/" + k
		switch {
		case subSchemaMaps[k]:
			ao, ok1 := asObj(av)
			bo, ok2 := asObj(bv)
			if !ok1 || !ok2 {
				if !jsonEqual(av, bv) {
					return e.failf(w, "differs")
				}
				continue
			}
			if len(ao) != len(bo) {
				return e.failf(w, "different key sets: %v vs %v", sortedKeys(ao), sortedKeys(bo))
			}
			for _, pk := range sortedKeys(ao) {
				bpv, ok := bo[pk]
				if !ok {
					return e.failf(w, "key %q missing in output", pk)
				}
				if !e.schema(&node{doc: a2.doc, v: ao[pk]}, &node{doc: b2.doc, v: bpv}, w+"/"+pk) {
					return false
				}
			}
		case subSchemaLists[k]:
			al, ok1 := asArr(av)
			bl, ok2 := asArr(bv)
			if !ok1 || !ok2 || len(al) != len(bl) {
				return e.failf(w, "list shape differs")
			}
			for i := range al {
				if !e.schema(&node{doc: a2.doc, v: al[i]}, &node{doc: b2.doc, v: bl[i]}, fmt.Sprintf("%s/%d", w, i)) {
					return false
				}
			}
		case subSchemaSingles[k]:
			if !e.schema(&node{doc: a2.doc, v: av}, &node{doc: b2.doc, v: bv}, w) {
				return false
			}
		case subSchemaFlex[k]:
			al, aIsL := asArr(av)
			bl, bIsL := asArr(bv)
			if aIsL != bIsL {
				return e.failf(w, "schema vs tuple")
			}
			if aIsL {
				if len(al) != len(bl) {
					return e.failf(w, "tuple length differs")
				}
				for i := range al {
					if !e.schema(&node{doc: a2.doc, v: al[i]}, &node{doc: b2.doc, v: bl[i]}, fmt.Sprintf("%s/%d", w, i)) {
						return false
					}
				}
				continue
			}
			_, aIsO := asObj(av)
			_, bIsO := asObj(bv)
			if aIsO && bIsO {
				if !e.schema(&node{doc: a2.doc, v: av}, &node{doc: b2.doc, v: bv}, w) {
					return false
				}
				continue
			}
			if !jsonEqual(av, bv) {
				return e.failf(w, "differs: %s vs %s", truncate(string(canonJSON(av)), 120), truncate(string(canonJSON(bv)), 120))
			}
		case k == "dependencies":
			if !jsonEqual(av, bv) { // not generated with schemas inside; compared literally
				return e.failf(w, "differs")
			}
		default:
			if !jsonEqual(av, bv) {
				return e.failf(w, "differs: %s vs %s", truncate(string(canonJSON(av)), 120), truncate(string(canonJSON(bv)), 120))
			}
		}
	}
	return true
}

func (e *equiv) objectExcept(a, b map[string]any, where string, special map[string]func(av, bv any, w string) bool) bool {
	keys := map[string]bool{}
	for k := range a {
		keys[k] = true
	}
	for k := range b {
		keys[k] = true
	}
	ks := make([]string, 0, len(keys))
	for k := range keys {
		ks = append(ks, k)
	}
	sort.Strings(ks)
	for _, k := range ks {
		av, ain := a[k]
		bv, bin := b[k]
		if ain != bin {
			return e.failf(where, "key %q present on one side only (input %v, output %v)", k, ain, bin)
		}
		if f, ok := special[k]; ok {
			if !f(av, bv, where+"/"+k) {
				return false
			}
			continue
		}
		if !jsonEqual(av, bv) {
			return e.failf(where+"/"+k, "differs: %s vs %s", truncate(string(canonJSON(av)), 160), truncate(string(canonJSON(bv)), 160))
		}
	}
	return true
}

func (e *equiv) parameter(a, b *node, where string) bool {
	a2, err := e.in.follow(a, "parameter")
	if err != nil {
		return e.failf(where, "input side: %v", err)
	}
	b2, err := e.out.follow(b, "parameter")
	if err != nil {
		return e.failf(where, "output side: %v", err)
	}
	am, ok1 := asObj(a2.v)
	bm, ok2 := asObj(b2.v)
	if !ok1 || !ok2 {
		return e.failf(where, "parameter is not an object")
	}
	return e.objectExcept(am, bm, where, map[string]func(av, bv any, w string) bool{
		"schema": func(av, bv any, w string) bool {
			return e.schema(&node{doc: a2.doc, v: av}, &node{doc: b2.doc, v: bv}, w)
		},
	})
}

func (e *equiv) response(a, b *node, where string) bool {
	a2, err := e.in.follow(a, "response")
	if err != nil {
		return e.failf(where, "input side: %v", err)
	}
	b2, err := e.out.follow(b, "response")
	if err != nil {
		return e.failf(where, "output side: %v", err)
	}
	am, ok1 := asObj(a2.v)
	bm, ok2 := asObj(b2.v)
	if !ok1 || !ok2 {
		return e.failf(where, "response is not an object")
	}
	return e.objectExcept(am, bm, where, map[string]func(av, bv any, w string) bool{
		"schema": func(av, bv any, w string) bool {
			return e.schema(&node{doc: a2.doc, v: av}, &node{doc: b2.doc, v: bv}, w)
		},
	})
}

func (e *equiv) paramList(adoc, bdoc string, av, bv any, w string) bool {
	al, ok1 := asArr(av)
	bl, ok2 := asArr(bv)
	if !ok1 || !ok2 || len(al) != len(bl) {
		return e.failf(w, "parameter lists differ in length")
	}
	for i := range al {
		if !e.parameter(&node{doc: adoc, v: al[i]}, &node{doc: bdoc, v: bl[i]}, fmt.Sprintf("%s/%d", w, i)) {
			return false
		}
	}
	return true
}

func (e *equiv) operation(adoc, bdoc string, av, bv any, where string) bool {
	am, ok1 := asObj(av)
	bm, ok2 := asObj(bv)
	if !ok1 || !ok2 {
		return e.failf(where, "operation is not an object")
	}
	return e.objectExcept(am, bm, where, map[string]func(av, bv any, w string) bool{
		"parameters": func(av, bv any, w string) bool { return e.paramList(adoc, bdoc, av, bv, w) },
		"responses": func(av, bv any, w string) bool {
			ar, ok1 := asObj(av)
			br, ok2 := asObj(bv)
			if !ok1 || !ok2 {
				return e.failf(w, "responses is not an object")
			}
			sp := map[string]func(av, bv any, w string) bool{}
			for k := range ar {
				if !strings.HasPrefix(k, "x-") {
					sp[k] = func(av, bv any, w string) bool {
						return e.response(&node{doc: adoc, v: av}, &node{doc: bdoc, v: bv}, w)
					}
				}
			}
			return e.objectExcept(ar, br, w, sp)
		},
	})
}

func (e *equiv) pathItem(a, b *node, where string) bool {
	a2, err := e.in.follow(a, "pathItem")
	if err != nil {
		return e.failf(where, "input side: %v", err)
	}
	b2, err := e.out.follow(b, "pathItem")
	if err != nil {
		return e.failf(where, "output side: %v", err)
	}
	am, ok1 := asObj(a2.v)
	bm, ok2 := asObj(b2.v)
	if !ok1 || !ok2 {
		return e.failf(where, "path item is not an object")
	}
	sp := map[string]func(av, bv any, w string) bool{
		"parameters": func(av, bv any, w string) bool { return e.paramList(a2.doc, b2.doc, av, bv, w) },
	}
	for _, m := range methods {
		sp[m] = func(av, bv any, w string) bool { return e.operation(a2.doc, b2.doc, av, bv, w) }
	}
	return e.objectExcept(am, bm, where, sp)
}

// reachableDefs computes the root definitions reachable from `paths` (and, unless removeUnused, from the shared
// parameters/responses) of the input — the ones RemoveUnused may not delete.
func reachableDefs(in *bundleView, removeUnused bool) map[string]bool {
	root, _ := asObj(in.docs[in.rootPath])
	seen := map[string]bool{}  // doc#ptr visited
	reach := map[string]bool{} // root definition names
	var visit func(doc string, v any)
	visit = func(doc string, v any) {
		switch x := v.(type) {
		case map[string]any:
			if r, ok := refOf(x); ok {
				tdoc, toks, raw, err := in.resolveRaw(doc, r)
				if err == nil {
					id := tdoc + "#" + ptrJoin(toks...)
					if tdoc == in.rootPath && len(toks) >= 2 && toks[0] == "definitions" {
						reach[toks[1]] = true
					}
					if !seen[id] {
						seen[id] = true
						visit(tdoc, raw)
						// a pointer below a definition keeps the whole definition alive only through naming; be
						// conservative: the definition itself counts as reachable (it will not be *required* missing)
					}
				}
			}
			for _, k := range sortedKeys(x) {
				visit(doc, x[k])
			}
		case []any:
			for _, e := range x {
				visit(doc, e)
			}
		}
	}
	visit(in.rootPath, root["paths"])
	if !removeUnused {
		visit(in.rootPath, root["parameters"])
		visit(in.rootPath, root["responses"])
	}
	return reach
}

// checkMeaning is the C01 oracle. Returns "" or the first mismatch.
// meaningSig is set by checkMeaning to a stable signature of the mismatch it reports ("" if none in particular).
var meaningSig string

// tolerateGenLoc: when set, an x-go-gen-location marker found anywhere in the output is not a difference (used by
// the properties that only borrow the C01 oracle for "same meaning": C03, C05, C06, C09).
var tolerateGenLoc bool

func checkMeaningTolerant(disk map[string]string, rootPath string, out []byte, opts FlatOpts) (clause, detail string) {
	tolerateGenLoc = true
	defer func() { tolerateGenLoc = false }()
	return checkMeaning(disk, rootPath, out, opts)
}

func checkMeaning(disk map[string]string, rootPath string, out []byte, opts FlatOpts) (clause, detail string) {
	meaningSig = ""
	in, _ := newView(disk, rootPath)
	outDisk := map[string]string{}
	for p, s := range disk {
		outDisk[p] = s
	}
	outDisk[rootPath] = string(out)
	ov, _ := newView(outDisk, rootPath)
	inRoot, ok1 := asObj(in.docs[rootPath])
	outRoot, ok2 := asObj(ov.docs[rootPath])
	if !ok1 || !ok2 {
		return "meaning-root-shape", "root is not an object"
	}
	e := &equiv{in: in, out: ov, inDefs: map[string]bool{}, assumed: map[[2]uintptr]bool{}}
	inDefs, _ := asObj(inRoot["definitions"])
	for k := range inDefs {
		e.inDefs[k] = true
	}
	// top-level keys other than the four sections: normal form of the whole root
	inNormAny, err := normalizeKind(inRoot, "swagger")
	if err != nil {
		return "", "" // cannot happen for loadable documents; nothing to compare
	}
	inNorm, _ := asObj(inNormAny)
	for _, k := range sortedKeys(inNorm) {
		if k == "paths" || k == "definitions" || k == "parameters" || k == "responses" {
			continue
		}
		if !jsonEqual(inNorm[k], outRoot[k]) {
			return "meaning-toplevel", fmt.Sprintf("top-level key %q changed: %s vs %s", k, truncate(string(canonJSON(inNorm[k])), 200), truncate(string(canonJSON(outRoot[k])), 200))
		}
	}
	for _, k := range sortedKeys(outRoot) {
		if _, ok := inNorm[k]; !ok && k != "definitions" && k != "paths" {
			if (k == "parameters" || k == "responses") && false {
				continue
			}
			return "meaning-toplevel", fmt.Sprintf("top-level key %q added", k)
		}
	}
	// paths
	inPaths, _ := asObj(inRoot["paths"])
	outPaths, _ := asObj(outRoot["paths"])
	if len(inPaths) != len(outPaths) {
		return "meaning-paths", fmt.Sprintf("path sets differ: %v vs %v", sortedKeys(inPaths), sortedKeys(outPaths))
	}
	for _, p := range sortedKeys(inPaths) {
		op, ok := outPaths[p]
		if !ok {
			return "meaning-paths", fmt.Sprintf("path %q missing", p)
		}
		if strings.HasPrefix(p, "x-") {
			if !jsonEqual(inPaths[p], op) {
				return "meaning-paths", "extension under paths changed"
			}
			continue
		}
		na, err := normalizeKind(inPaths[p], "pathItem")
		if err != nil {
			continue
		}
		if !e.pathItem(&node{doc: rootPath, v: na}, &node{doc: rootPath, v: op}, "paths/"+p) {
			return "meaning-operation", e.mismatch
		}
	}
	// shared parameters / responses (kept unless RemoveUnused)
	if !opts.RemoveUnused {
		inP, _ := asObj(inRoot["parameters"])
		outP, _ := asObj(outRoot["parameters"])
		if len(inP) != len(outP) {
			return "meaning-shared", fmt.Sprintf("shared parameter sets differ: %v vs %v", sortedKeys(inP), sortedKeys(outP))
		}
		for _, k := range sortedKeys(inP) {
			na, err := normalizeKind(inP[k], "parameter")
			if err != nil {
				continue
			}
			if _, ok := outP[k]; !ok {
				return "meaning-shared", "shared parameter " + k + " missing"
			}
			if !e.parameter(&node{doc: rootPath, v: na}, &node{doc: rootPath, v: outP[k]}, "parameters/"+k) {
				return "meaning-shared", e.mismatch
			}
		}
		inR, _ := asObj(inRoot["responses"])
		outR, _ := asObj(outRoot["responses"])
		if len(inR) != len(outR) {
			return "meaning-shared", fmt.Sprintf("shared response sets differ: %v vs %v", sortedKeys(inR), sortedKeys(outR))
		}
		for _, k := range sortedKeys(inR) {
			na, err := normalizeKind(inR[k], "response")
			if err != nil {
				continue
			}
			if _, ok := outR[k]; !ok {
				return "meaning-shared", "shared response " + k + " missing"
			}
			if !e.response(&node{doc: rootPath, v: na}, &node{doc: rootPath, v: outR[k]}, "responses/"+k) {
				return "meaning-shared", e.mismatch
			}
		}
	}
	// definitions that existed before. With RemoveUnused a definition may disappear when nothing refers to it
	// any more IN THE OUTPUT (e.g. after Expand, or when the only referrer was a pointer that has been re-pointed):
	// if something still referred to it, the comparisons above would already have failed on the dangling $ref.
	outDefs, _ := asObj(outRoot["definitions"])
	for _, name := range sortedKeys(inDefs) {
		od, ok := outDefs[name]
		if !ok {
			if opts.RemoveUnused {
				continue
			}
			return "meaning-definition-lost", fmt.Sprintf("definition %q existed before but is missing from the output (RemoveUnused not requested)", name)
		}
		a, err := in.resolve(rootPath, mkRef("", "definitions", name), "schema")
		if err != nil {
			continue
		}
		b := &node{doc: rootPath, v: od, defTop: name, id: rootPath + "#" + ptrJoin("definitions", name)}
		if !e.schema(a, b, "definitions/"+name) {
			return "meaning-definition", e.mismatch
		}
	}
	return "", ""
}

// ---------------------------------------------------------------------------------------------
// RefScan: grammar-directed walk of a Swagger document classifying every $ref by the kind of its holder.

type refHit struct {
	holder string // parameter | response | pathItem | items | schema
	where  string
	ref    string
}

type schemaPos struct {
	where  string
	v      map[string]any
	topDef string // non-empty when this is the body of a top-level definition
}

type docScan struct {
	refs    []refHit
	schemas []schemaPos
}

func scanDoc(root map[string]any) *docScan {
	s := &docScan{}
	if defs, ok := asObj(root["definitions"]); ok {
		for _, k := range sortedKeys(defs) {
			s.schema(defs[k], "definitions/"+ptrEscape(k), k)
		}
	}
	if ps, ok := asObj(root["parameters"]); ok {
		for _, k := range sortedKeys(ps) {
			s.parameter(ps[k], "parameters/"+ptrEscape(k))
		}
	}
	if rs, ok := asObj(root["responses"]); ok {
		for _, k := range sortedKeys(rs) {
			s.response(rs[k], "responses/"+ptrEscape(k))
		}
	}
	if paths, ok := asObj(root["paths"]); ok {
		for _, p := range sortedKeys(paths) {
			if strings.HasPrefix(p, "x-") {
				continue
			}
			s.pathItem(paths[p], "paths/"+ptrEscape(p))
		}
	}
	return s
}

func (s *docScan) pathItem(v any, where string) {
	m, ok := asObj(v)
	if !ok {
		return
	}
	if r, ok := m["$ref"].(string); ok && r != "" {
		s.refs = append(s.refs, refHit{"pathItem", where, r})
	}
	if pl, ok := asArr(m["parameters"]); ok {
		for i, p := range pl {
			s.parameter(p, fmt.Sprintf("%s/parameters/%d", where, i))
		}
	}
	for _, meth := range methods {
		op, ok := asObj(m[meth])
		if !ok {
			continue
		}
		w := where + "/" + meth
		if pl, ok := asArr(op["parameters"]); ok {
			for i, p := range pl {
				s.parameter(p, fmt.Sprintf("%s/parameters/%d", w, i))
			}
		}
		if rs, ok := asObj(op["responses"]); ok {
			for _, code := range sortedKeys(rs) {
				if strings.HasPrefix(code, "x-") {
					continue
				}
				s.response(rs[code], w+"/responses/"+code)
			}
		}
	}
}

func (s *docScan) parameter(v any, where string) {
	m, ok := asObj(v)
	if !ok {
		return
	}
	if r, ok := m["$ref"].(string); ok && r != "" {
		s.refs = append(s.refs, refHit{"parameter", where, r})
	}
	if sch, ok := m["schema"]; ok {
		s.schema(sch, where+"/schema", "")
	}
	s.items(m["items"], where+"/items")
}

func (s *docScan) items(v any, where string) {
	m, ok := asObj(v)
	if !ok {
		return
	}
	if r, ok := m["$ref"].(string); ok && r != "" {
		s.refs = append(s.refs, refHit{"items", where, r})
	}
	s.items(m["items"], where+"/items")
}

func (s *docScan) response(v any, where string) {
	m, ok := asObj(v)
	if !ok {
		return
	}
	if r, ok := m["$ref"].(string); ok && r != "" {
		s.refs = append(s.refs, refHit{"response", where, r})
	}
	if sch, ok := m["schema"]; ok {
		s.schema(sch, where+"/schema", "")
	}
	if hs, ok := asObj(m["headers"]); ok {
		for _, h := range sortedKeys(hs) {
			if hm, ok := asObj(hs[h]); ok {
				s.items(hm["items"], where+"/headers/"+h+"/items")
			}
		}
	}
}

func (s *docScan) schema(v any, where string, topDef string) {
	m, ok := asObj(v)
	if !ok {
		return
	}
	s.schemas = append(s.schemas, schemaPos{where, m, topDef})
	if r, ok := m["$ref"].(string); ok && r != "" {
		s.refs = append(s.refs, refHit{"schema", where, r})
	}
	for _, k := range []string{"properties", "patternProperties", "definitions"} {
		if sub, ok := asObj(m[k]); ok {
			for _, pk := range sortedKeys(sub) {
				s.schema(sub[pk], where+"/"+k+"/"+ptrEscape(pk), "")
			}
		}
	}
	if deps, ok := asObj(m["dependencies"]); ok {
		for _, pk := range sortedKeys(deps) {
			s.schema(deps[pk], where+"/dependencies/"+ptrEscape(pk), "")
		}
	}
	for _, k := range []string{"allOf", "anyOf", "oneOf"} {
		if sub, ok := asArr(m[k]); ok {
			for i, e := range sub {
				s.schema(e, fmt.Sprintf("%s/%s/%d", where, k, i), "")
			}
		}
	}
	if n, ok := m["not"]; ok {
		s.schema(n, where+"/not", "")
	}
	switch it := m["items"].(type) {
	case map[string]any:
		s.schema(it, where+"/items", "")
	case []any:
		for i, e := range it {
			s.schema(e, fmt.Sprintf("%s/items/%d", where, i), "")
		}
	}
	for _, k := range []string{"additionalProperties", "additionalItems"} {
		if sub, ok := asObj(m[k]); ok {
			s.schema(sub, where+"/"+k, "")
		}
	}
}

// blindRefs finds every "$ref" string anywhere in v (cross-check of the grammar-directed scan).
func blindRefs(v any, acc *[]string) {
	switch x := v.(type) {
	case map[string]any:
		for _, k := range sortedKeys(x) {
			if k == "$ref" {
				if s, ok := x[k].(string); ok {
					*acc = append(*acc, s)
				}
				continue
			}
			blindRefs(x[k], acc)
		}
	case []any:
		for _, e := range x {
			blindRefs(e, acc)
		}
	}
}

// localDefRef reports whether ref has exactly the form '#/definitions/<token>' (modulo URI percent-encoding
// and JSON-pointer escaping, W rule 1) and returns the decoded name.
func localDefRef(ref string) (string, bool) {
	if !strings.HasPrefix(ref, "#/definitions/") {
		return "", false
	}
	docPart, toks, _, err := splitRef(ref)
	if err != nil || docPart != "" || len(toks) != 2 || toks[0] != "definitions" {
		return "", false
	}
	return toks[1], true
}

// checkCanonical is the C02 oracle (Minimal / full), also used for the remaining $refs of C05.
func checkCanonical(out []byte, expandMode bool) (clause, sig, detail string) {
	rootAny, err := parseJSON(out)
	if err != nil {
		return "output-not-json", "", err.Error()
	}
	root, _ := asObj(rootAny)
	sc := scanDoc(root)
	defs, _ := asObj(root["definitions"])
	var blind []string
	for _, k := range sortedKeys(root) {
		if strings.HasPrefix(k, "x-") || k == "info" || k == "securityDefinitions" || k == "tags" || k == "externalDocs" {
			continue // free-form data, not $ref holders
		}
		blindRefs(root[k], &blind)
	}
	if len(blind) != len(sc.refs) {
		// a $ref in a place the grammar walk does not know: report it as non-canonical
		known := map[string]int{}
		for _, h := range sc.refs {
			known[h.ref]++
		}
		for _, b := range blind {
			if known[b] == 0 {
				return "ref-in-unknown-holder", "", fmt.Sprintf("$ref %q found outside the known holder kinds", b)
			}
			known[b]--
		}
	}
	for _, h := range sc.refs {
		if h.holder != "schema" {
			return "ref-in-" + h.holder, h.holder, fmt.Sprintf("%s still holds $ref %q", h.where, h.ref)
		}
		name, ok := localDefRef(h.ref)
		if !ok {
			kind := "anonymous-pointer"
			if !strings.HasPrefix(h.ref, "#") {
				kind = "remote"
			}
			return "ref-not-canonical", kind, fmt.Sprintf("%s: $ref %q is not of the form #/definitions/<name>", h.where, h.ref)
		}
		if _, ok := defs[name]; !ok {
			return "ref-dangling", nameClass(name), fmt.Sprintf("%s: $ref %q designates no definition (have %v)", h.where, h.ref, sortedKeys(defs))
		}
	}
	return "", "", ""
}

func nameClass(name string) string {
	needsURL, needsPtr := false, false
	for _, c := range name {
		switch {
		case c == '/' || c == '~':
			needsPtr = true
		case c == ' ' || c > 127 || strings.ContainsRune("#[]{}?\"<>\\^`|%", c):
			needsURL = true
		}
	}
	switch {
	case needsURL && needsPtr:
		return "name-needs-url-and-pointer-escaping"
	case needsURL:
		return "name-needs-url-escaping"
	case needsPtr:
		return "name-needs-pointer-escaping"
	}
	return "plain-name"
}

// checkComplex is the C03 oracle.
func checkComplex(in map[string]string, rootPath string, out []byte) (clause, sig, detail string) {
	rootAny, err := parseJSON(out)
	if err != nil {
		return "output-not-json", "", err.Error()
	}
	root, _ := asObj(rootAny)
	sc := scanDoc(root)
	for _, sp := range sc.schemas {
		if sp.topDef != "" {
			continue
		}
		if props, ok := asObj(sp.v["properties"]); ok && len(props) > 0 {
			return "complex-inline", "properties", fmt.Sprintf("%s is an inline object with properties %v", sp.where, sortedKeys(props))
		}
		if all, ok := asArr(sp.v["allOf"]); ok && len(all) > 0 {
			return "complex-inline", "allOf", fmt.Sprintf("%s is an inline allOf", sp.where)
		}
		if _, ok := asArr(sp.v["items"]); ok {
			return "complex-inline", "tuple", fmt.Sprintf("%s is an inline tuple", sp.where)
		}
	}
	inRootAny, _ := parseJSON([]byte(in[rootPath]))
	inRoot, _ := asObj(inRootAny)
	inDefs, _ := asObj(inRoot["definitions"])
	outDefs, _ := asObj(root["definitions"])
	lower := map[string][]string{}
	for _, n := range sortedKeys(outDefs) {
		l := strings.ToLower(n)
		lower[l] = append(lower[l], n)
	}
	for _, l := range sortedKeys2(lower) {
		names := lower[l]
		if len(names) < 2 {
			continue
		}
		for _, n := range names {
			if _, old := inDefs[n]; !old {
				return "new-name-collides", "case", fmt.Sprintf("created definition %q equals another definition name up to case: %v", n, names)
			}
		}
	}
	return "", "", ""
}

func sortedKeys2(m map[string][]string) []string {
	keys := make([]string, 0, len(m))
	for k := range m {
		keys = append(keys, k)
	}
	sort.Strings(keys)
	return keys
}

// checkRemoveUnused is the C06 oracle (minus C01, minus termination which is the step budget).
func checkRemoveUnused(out []byte) (clause, sig, detail string) {
	rootAny, err := parseJSON(out)
	if err != nil {
		return "output-not-json", "", err.Error()
	}
	root, _ := asObj(rootAny)
	if p, ok := asObj(root["parameters"]); ok && len(p) > 0 {
		return "shared-parameters-left", "", fmt.Sprintf("parameters section not empty: %v", sortedKeys(p))
	}
	if p, ok := asObj(root["responses"]); ok && len(p) > 0 {
		return "shared-responses-left", "", fmt.Sprintf("responses section not empty: %v", sortedKeys(p))
	}
	sc := scanDoc(root)
	defs, _ := asObj(root["definitions"])
	used := map[string]int{}
	for _, h := range sc.refs {
		if h.holder != "schema" {
			continue
		}
		docPart, toks, _, err := splitRef(h.ref)
		if err != nil || docPart != "" {
			continue
		}
		if len(toks) >= 2 && toks[0] == "definitions" {
			if _, ok := defs[toks[1]]; !ok {
				return "ref-dangling", nameClass(toks[1]), fmt.Sprintf("%s: $ref %q designates no definition (have %v)", h.where, h.ref, sortedKeys(defs))
			}
			used[toks[1]]++
		}
	}
	for _, n := range sortedKeys(defs) {
		if used[n] == 0 {
			return "unused-definition-left", nameClass(n), fmt.Sprintf("definition %q is referred to by no $ref", n)
		}
	}
	return "", "", ""
}

// hasRefCycle decides "reference cycle" on the $ref graph of the whole input bundle (C05, C07).
func hasRefCycle(disk map[string]string, rootPath string) bool {
	bv, _ := newView(disk, rootPath)
	// graph nodes: (doc, pointer) of every $ref target; edges: target subtree contains a $ref to another target.
	// A cycle exists iff DFS from some $ref target re-enters a target on the stack by containment.
	type key = string
	state := map[key]int{} // 1 = on stack, 2 = done
	var cyc bool
	var visitTarget func(doc string, toks []string, raw any)
	var walk func(doc string, v any)
	var stackIDs []struct {
		doc  string
		toks []string
	}
	within := func(doc string, toks []string) bool {
		// is (doc,toks) equal to or an ancestor/descendant of something on the stack?
		for _, s := range stackIDs {
			if s.doc != doc {
				continue
			}
			n := len(s.toks)
			if len(toks) < n {
				n = len(toks)
			}
			same := true
			for i := 0; i < n; i++ {
				if s.toks[i] != toks[i] {
					same = false
					break
				}
			}
			if same && len(toks) <= len(s.toks) {
				// target is an ancestor of (or equal to) something being expanded: re-entering it re-enters that
				return true
			}
		}
		return false
	}
	walk = func(doc string, v any) {
		if cyc {
			return
		}
		switch x := v.(type) {
		case map[string]any:
			if r, ok := refOf(x); ok {
				tdoc, toks, raw, err := bv.resolveRaw(doc, r)
				if err == nil {
					visitTarget(tdoc, toks, raw)
				}
				return
			}
			for _, k := range sortedKeys(x) {
				walk(doc, x[k])
			}
		case []any:
			for _, e := range x {
				walk(doc, e)
			}
		}
	}
	visitTarget = func(doc string, toks []string, raw any) {
		id := doc + "#" + ptrJoin(toks...)
		if within(doc, toks) {
			cyc = true
			return
		}
		if state[id] == 2 {
			return
		}
		state[id] = 1
		stackIDs = append(stackIDs, struct {
			doc  string
			toks []string
		}{doc, toks})
		walk(doc, raw)
		stackIDs = stackIDs[:len(stackIDs)-1]
		state[id] = 2
	}
	walk(rootPath, bv.docs[rootPath])
	return cyc
}

// validateW is the generator's self-check (independent resolver): every $ref of every document resolves.
func validateRefsResolve(disk map[string]string, rootPath string) error {
	bv, _ := newView(disk, rootPath)
	var firstErr error
	var walk func(doc string, v any)
	walk = func(doc string, v any) {
		if firstErr != nil {
			return
		}
		switch x := v.(type) {
		case map[string]any:
			if r, ok := refOf(x); ok {
				// the $ref must resolve, and a chain of pure $refs must end somewhere
				cd, cr := doc, r
				for hops := 0; ; hops++ {
					tdoc, _, raw, err := bv.resolveRaw(cd, cr)
					if err != nil {
						firstErr = err
						break
					}
					nr, isRef := refOf(raw)
					if !isRef {
						break
					}
					if hops > 32 {
						firstErr = fmt.Errorf("$ref %q in %s starts a chain of $refs that never reaches a schema", r, doc)
						break
					}
					cd, cr = tdoc, nr
				}
			}
			for _, k := range sortedKeys(x) {
				walk(doc, x[k])
			}
		case []any:
			for _, e := range x {
				walk(doc, e)
			}
		}
	}
	docs := make([]string, 0, len(bv.docs))
	for p := range bv.docs {
		docs = append(docs, p)
	}
	sort.Strings(docs)
	for _, p := range docs {
		walk(p, bv.docs[p])
	}
	return firstErr
}
