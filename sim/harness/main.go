package main

import (
	"bufio"
	"encoding/json"
	"flag"
	"fmt"
	"io"
	"log"
	"os"
	"runtime"
	"runtime/debug"
	"runtime/pprof"
	"strconv"
	"time"
)

// simh: one binary, built from the instrumented scratch copy, with three roles:
//
//	simh worker  -inflight <file>            executes cases sent as JSON lines on stdin
//	simh drive   -prop C07 -tier quick ...   seeded search + minimisation + replay + evidence
//	simh replay  <replay.json>               re-executes one explicit case
//
// Exit codes: 0 held, 1 VIOLATION, 2 could not decide (infrastructure).

type workerCmd struct {
	Op     string `json:"op"` // gen | exec
	Prop   string `json:"prop,omitempty"`
	Tier   string `json:"tier,omitempty"`
	Seed   uint64 `json:"seed,omitempty"`
	Index  int64  `json:"index,omitempty"`
	Case   *Case  `json:"case,omitempty"`
	Sample bool   `json:"sample,omitempty"`
}

func execCase(c *Case) (v *Verdict) {
	defer func() {
		if r := recover(); r != nil {
			if ie, ok := r.(infraError); ok {
				v = &Verdict{Index: c.Index, Infra: ie.msg}
				return
			}
			v = &Verdict{Index: c.Index, Infra: fmt.Sprintf("harness panic: %v\n%s", r, debug.Stack())}
		}
	}()
	switch c.Kind {
	case "flatten":
		return evalFlatten(c)
	case "failsafe":
		return evalFailsafe(c)
	case "mixin":
		return evalMixin(c)
	case "readers":
		return evalReaders(c)
	}
	return &Verdict{Index: c.Index, Infra: "unknown case kind " + c.Kind}
}

// heartbeat tells the driver that the worker is making progress inside a case that consists of many
// executions (fault enumeration): the driver's watchdog is a no-progress timer, not a per-case limit.
var heartbeatOut *bufio.Writer

func heartbeat() {
	if heartbeatOut != nil {
		heartbeatOut.WriteString("{\"hb\":true}\n")
		heartbeatOut.Flush()
	}
}

func workerMain(inflight string) {
	installLoader()
	log.SetOutput(io.Discard) // spec logs resolution errors through the std logger; they are observed as errors
	debug.SetMaxStack(512 << 20)
	if err := checkGetterDrivers(); err != nil {
		fmt.Fprintln(os.Stderr, "simh worker:", err)
		os.Exit(2)
	}
	in := bufio.NewReaderSize(os.Stdin, 1<<20)
	out := bufio.NewWriterSize(os.Stdout, 1<<20)
	heartbeatOut = out
	dec := json.NewDecoder(in)
	for {
		var cmd workerCmd
		if err := dec.Decode(&cmd); err != nil {
			return
		}
		var c *Case
		var v *Verdict
		func() {
			defer func() {
				if r := recover(); r != nil {
					msg := fmt.Sprintf("generator panic: %v\n%s", r, debug.Stack())
					if ie, ok := r.(infraError); ok {
						msg = ie.msg
					}
					v = &Verdict{Index: cmd.Index, Infra: msg}
				}
			}()
			if cmd.Op == "gen" {
				c = genCase(cmd.Prop, cmd.Tier, cmd.Seed, cmd.Index)
				c.VerifSeed = cmd.Seed
			} else {
				c = cmd.Case
			}
		}()
		if v == nil {
			if inflight != "" {
				b, _ := json.Marshal(c)
				_ = writeFileAtomic(inflight, b)
			}
			v = execCase(c)
			v.Features = c.Features
			if len(v.Failures) > 0 || cmd.Sample || v.Infra != "" {
				v.Case = c
			}
		}
		b, _ := json.Marshal(v)
		out.Write(b)
		out.WriteByte('\n')
		out.Flush()
	}
}

func envUint(name string, def uint64) uint64 {
	if s := os.Getenv(name); s != "" {
		if n, err := strconv.ParseUint(s, 10, 64); err == nil {
			return n
		}
		if n, err := strconv.ParseInt(s, 10, 64); err == nil {
			return uint64(n)
		}
	}
	return def
}

func main() {
	if len(os.Args) < 2 {
		fmt.Fprintln(os.Stderr, "usage: simh worker|drive|replay|gencase ...")
		os.Exit(2)
	}
	switch os.Args[1] {
	case "worker":
		fs := flag.NewFlagSet("worker", flag.ExitOnError)
		inflight := fs.String("inflight", "", "file receiving the case in flight")
		maxprocs := fs.Int("maxprocs", 0, "GOMAXPROCS")
		fs.Parse(os.Args[2:])
		if *maxprocs > 0 {
			runtime.GOMAXPROCS(*maxprocs)
		}
		workerMain(*inflight)
	case "drive":
		os.Exit(driveMain(os.Args[2:]))
	case "replay":
		os.Exit(replayMain(os.Args[2:]))
	case "gencase":
		fs := flag.NewFlagSet("gencase", flag.ExitOnError)
		prop := fs.String("prop", "C07", "")
		tier := fs.String("tier", "quick", "")
		seed := fs.Uint64("seed", 1, "")
		index := fs.Int64("index", 0, "")
		fs.Parse(os.Args[2:])
		c := genCase(*prop, *tier, *seed, *index)
		b, _ := json.MarshalIndent(c, "", " ")
		fmt.Println(string(b))
	case "bench":
		fs := flag.NewFlagSet("bench", flag.ExitOnError)
		prop := fs.String("prop", "C07", "")
		n := fs.Int64("n", 20, "")
		prof := fs.String("cpuprofile", "", "")
		fs.Parse(os.Args[2:])
		installLoader()
		log.SetOutput(io.Discard)
		if *prof != "" {
			f, _ := os.Create(*prof)
			pprof.StartCPUProfile(f)
			defer pprof.StopCPUProfile()
		}
		var evals int64
		for i := int64(0); i < *n; i++ {
			c := genCase(*prop, "quick", 1, i)
			t0 := time.Now()
			v := execCase(c)
			fmt.Printf("case %d opts=%s evals=%d steps=%d max=%d first_not_ok=%d t=%v feats=%v\n", i, c.Opts, v.Evals, v.Steps, v.MaxSteps, v.Counters["first_run_not_ok"], time.Since(t0), c.Features)
			evals += v.Evals
			if len(v.Failures) > 0 || v.Infra != "" {
				fmt.Println(i, v.Failures, v.Infra)
			}
		}
		fmt.Println("evals", evals)
	case "digest":
		// determinism self-test: a full, order-sensitive digest of N cases of one batch. Two processes with the
		// same arguments must print identical output whatever GOMAXPROCS is.
		fs := flag.NewFlagSet("digest", flag.ExitOnError)
		prop := fs.String("prop", "C07", "")
		tier := fs.String("tier", "quick", "")
		seed := fs.Uint64("seed", 1, "")
		n := fs.Int64("n", 24, "")
		fs.Parse(os.Args[2:])
		installLoader()
		log.SetOutput(io.Discard)
		for i := int64(0); i < *n; i++ {
			c := genCase(*prop, *tier, *seed, i)
			cb, _ := json.Marshal(c)
			v := execCase(c)
			v.Case = nil
			vb, _ := json.Marshal(v)
			fmt.Printf("%d case=%016x verdict=%016x steps=%d evals=%d failures=%d\n", i, fnv64(cb), fnv64(vb), v.Steps, v.Evals, len(v.Failures))
		}
	case "show":
		// debugging aid: run the first schedule of a flatten replay and print outcome + output
		installLoader()
		log.SetOutput(io.Discard)
		b, err := os.ReadFile(os.Args[2])
		if err != nil {
			panic(err)
		}
		var c Case
		if err := json.Unmarshal(b, &c); err != nil {
			panic(err)
		}
		o := runFlatten(&c, c.Schedules[0], c.Faults, nil)
		fmt.Println("status:", o.status(), "loads:", o.Loads)
		fmt.Println(string(o.Out))
	case "selfcheck":
		if err := checkGetterDrivers(); err != nil {
			fmt.Fprintln(os.Stderr, err)
			os.Exit(2)
		}
	default:
		fmt.Fprintln(os.Stderr, "unknown role", os.Args[1])
		os.Exit(2)
	}
}
