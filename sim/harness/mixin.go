package main

import (
	"encoding/json"
	"fmt"
	"regexp"
	"sort"
	"strings"

	"simrt"

	"github.com/go-openapi/analysis"
	"github.com/go-openapi/spec"
)

// ---------------------------------------------------------------------------------------------
// generator of Mixin histories (C17, C18)

var mixPaths = []string{"/a", "/b", "/c", "/d", "/e"}
var mixDefs = []string{"A", "B", "C", "D"}
var mixParams = []string{"p1", "p2", "p3"}
var mixResps = []string{"r1", "r2", "r3"}
var mixSecDefs = []string{"apiKey", "oauth", "basic"}
var mixTags = []string{"pets", "store", "user"}
var mixExt = []string{"x-a", "x-b", "x-c", "x-C", "X-b", "x-Rate-Limit", "x-rate-limit"}
var mixMedia = []string{"application/json", "application/xml", "text/plain"}
var mixSchemes = []string{"http", "https", "ws"}
var mixOpIDs = []string{"list", "get", "create", "delete", "update", "find"}

// stems of ids that look like the result of a rename; never used as ids themselves
var mixLookalikeStems = []string{"sync", "job"}

func genMixinDoc(r *R, tag string, usedIDs map[string]bool, idlessPct int) obj {
	doc := obj{"swagger": "2.0"}
	sub := func(pool []string, pct int) []string {
		var out []string
		for _, k := range pool {
			if r.P(pct) {
				out = append(out, k)
			}
		}
		return out
	}
	ext := func(m obj) {
		for _, k := range sub(mixExt, 22) {
			m[k] = tag + k
		}
	}
	if r.P(70) {
		info := obj{}
		if r.P(60) {
			info["title"] = "title-" + tag
		}
		if r.P(60) {
			info["version"] = "v-" + tag
		}
		if r.P(40) {
			info["description"] = "desc-" + tag
		}
		if r.P(30) {
			info["termsOfService"] = "tos-" + tag
		}
		if r.P(40) {
			c := obj{}
			if r.P(60) {
				c["name"] = "contact-" + tag
			}
			if r.P(40) {
				c["url"] = "http://c/" + tag
			}
			if r.P(40) {
				c["email"] = tag + "@x.org"
			}
			info["contact"] = c
		}
		if r.P(40) {
			l := obj{}
			if r.P(70) {
				l["name"] = "lic-" + tag
			}
			if r.P(40) {
				l["url"] = "http://l/" + tag
			}
			info["license"] = l
		}
		if r.P(30) {
			ext(info)
		}
		doc["info"] = info
	}
	if r.P(40) {
		doc["host"] = "host-" + tag
	}
	if r.P(40) {
		doc["basePath"] = "/" + tag
	}
	if r.P(35) {
		ed := obj{}
		if r.P(70) {
			ed["description"] = "docs-" + tag
		}
		if r.P(70) {
			ed["url"] = "http://docs/" + tag
		}
		doc["externalDocs"] = ed
	}
	if r.P(40) {
		ext(doc)
	}
	list := func(key string, pool []string) {
		if r.P(50) {
			var l []any
			for _, k := range sub(pool, 50) {
				l = append(l, k)
			}
			r.Shuffle(len(l), func(i, j int) { l[i], l[j] = l[j], l[i] })
			if l != nil {
				doc[key] = l
			}
		}
	}
	list("consumes", mixMedia)
	list("produces", mixMedia)
	list("schemes", mixSchemes)
	if r.P(50) {
		var tags []any
		for _, k := range sub(mixTags, 50) {
			tags = append(tags, obj{"name": k, "description": "tag-" + tag})
		}
		if tags != nil {
			doc["tags"] = tags
		}
	}
	if r.P(50) {
		sd := obj{}
		for _, k := range sub(mixSecDefs, 50) {
			sd[k] = obj{"type": "apiKey", "name": "k-" + tag, "in": "header"}
		}
		doc["securityDefinitions"] = sd
	}
	if r.P(45) {
		var sec []any
		for _, k := range sub(mixSecDefs, 45) {
			req := obj{k: []any{}}
			if r.P(50) {
				req = obj{k: []any{"read"}}
			}
			if r.P(35) {
				// requirement naming several schemes (a strict superset of a single-scheme one)
				req[r.Pick(mixSecDefs)] = []any{}
			}
			sec = append(sec, req)
		}
		if r.P(12) {
			sec = append(sec, obj{})
		}
		if sec != nil {
			doc["security"] = sec
		}
	}
	if r.P(70) {
		defs := obj{}
		for _, k := range sub(mixDefs, 50) {
			defs[k] = obj{"type": "string", "description": "def-" + tag}
		}
		doc["definitions"] = defs
	}
	if r.P(50) {
		ps := obj{}
		for _, k := range sub(mixParams, 50) {
			ps[k] = obj{"name": k, "in": "query", "type": "string", "description": "param-" + tag}
		}
		doc["parameters"] = ps
	}
	if r.P(50) {
		rs := obj{}
		for _, k := range sub(mixResps, 50) {
			rs[k] = obj{"description": "resp-" + tag}
		}
		doc["responses"] = rs
	}
	if r.P(85) {
		paths := obj{}
		for _, p := range sub(mixPaths, 55) {
			pi := obj{}
			ms := append([]string(nil), methods...)
			r.Shuffle(len(ms), func(i, j int) { ms[i], ms[j] = ms[j], ms[i] })
			for _, m := range ms[:r.Range(1, 4)] {
				op := obj{"responses": obj{"200": obj{"description": "ok-" + tag}}, "description": "op-" + tag}
				if !r.P(idlessPct) {
					for try := 0; try < 10; try++ {
						id := r.Pick(mixOpIDs)
						if r.P(30) {
							id += fmt.Sprint(r.Intn(3))
						}
						if r.P(12) {
							// an id that merely looks renamed: '<stem>Mixin<k>' where <stem> is no operation id of any document
							// (inside C18's precondition, which only excludes '<id>Mixin<N>' of ANOTHER id)
							id = r.Pick(mixLookalikeStems) + "Mixin" + fmt.Sprint(r.Intn(3))
						}
						if !usedIDs[id] {
							usedIDs[id] = true
							op["operationId"] = id
							break
						}
					}
				}
				pi[m] = op
			}
			paths[p] = pi
		}
		if r.P(10) {
			doc["paths"] = obj{}
		} else {
			doc["paths"] = paths
		}
		if r.P(20) {
			// the paths object may carry vendor extensions of its own (also when it holds no path item)
			doc["paths"].(obj)[r.Pick([]string{"x-visibility", "x-Paths-Ext"})] = "ext-" + tag
		}
	}
	return doc
}

func genMixinCase(prop string, thorough bool, r *R, seed uint64, index int64) *Case {
	c := &Case{Property: prop, Kind: "mixin", Index: index, GenSeed: seed}
	idless := []int{0, 20, 50}[r.Intn(3)]
	c.Primary = string(canonJSON(genMixinDoc(r, "P", map[string]bool{}, idless)))
	n := r.Intn(4)
	for i := 0; i < n; i++ {
		c.Mixins = append(c.Mixins, string(canonJSON(genMixinDoc(r, fmt.Sprintf("M%d", i), map[string]bool{}, idless))))
	}
	// successive calls are a C17 dimension only: after a first call the primary may legitimately contain
	// '<id>Mixin0', which puts a second call outside C18's precondition
	c.Split = prop == "C17" && r.P(30)
	c.Schedules = []Schedule{{}}
	np := 3
	if thorough {
		np = 5
	}
	for i := 0; i < np; i++ {
		c.Schedules = append(c.Schedules, perturbedSchedule(r))
	}
	c.Features = []string{fmt.Sprintf("mixins%d", n), fmt.Sprintf("idless%d", idless)}
	if c.Split {
		c.Features = append(c.Features, "split")
	}
	return c
}

var reMixinSuffix = regexp.MustCompile(`Mixin[0-9]+$`)
var reMixinAnywhere = regexp.MustCompile(`Mixin[0-9]+`)
var reMixinSuffixes = regexp.MustCompile(`^(Mixin[0-9]+)+$`)

// mixinPrecondition: operation ids unique within each document and none of the form <id>Mixin<N> of another id (C18).
func mixinPrecondition(c *Case) bool {
	docs := append([]string{c.Primary}, c.Mixins...)
	all := map[string]bool{}
	for _, d := range docs {
		if v, err := parseJSON([]byte(d)); err == nil {
			forEachOp(v, func(path, method string, op obj) {
				if id, _ := op["operationId"].(string); id != "" {
					all[id] = true
				}
			})
		}
	}
	for id := range all {
		for _, loc := range reMixinAnywhere.FindAllStringIndex(id, -1) {
			// id = <stem>Mixin<N><rest>: outside the precondition when <stem> is itself an id and <rest> is empty or again suffixes
			if all[id[:loc[0]]] && reMixinSuffixes.MatchString(id[loc[0]:]) {
				return false
			}
		}
	}
	for _, d := range docs {
		v, err := parseJSON([]byte(d))
		if err != nil {
			return false
		}
		seen := map[string]bool{}
		ok := true
		forEachOp(v, func(path, method string, op obj) {
			id, _ := op["operationId"].(string)
			if id == "" {
				return
			}
			if seen[id] {
				ok = false
			}
			seen[id] = true
		})
		if !ok {
			return false
		}
	}
	return true
}

func forEachOp(doc any, f func(path, method string, op obj)) {
	root, _ := asObj(doc)
	paths, _ := asObj(root["paths"])
	for _, p := range sortedKeys(paths) {
		pi, _ := asObj(paths[p])
		for _, m := range methods {
			if op, ok := asObj(pi[m]); ok {
				f(p, m, op)
			}
		}
	}
}

// ---------------------------------------------------------------------------------------------
// MixinModel: the documented merge rules written directly over JSON objects

type mixinModel struct {
	doc        obj
	collisions []string       // multiset of colliding keys (category:key)
	origin     map[string]int // "path" -> index of the document that contributed it (0 = primary)
}

func normSwagger(s string) (obj, error) {
	var sw spec.Swagger
	if err := json.Unmarshal([]byte(s), &sw); err != nil {
		return nil, err
	}
	b, err := json.Marshal(sw)
	if err != nil {
		return nil, err
	}
	v, err := parseJSON(b)
	if err != nil {
		return nil, err
	}
	m, _ := asObj(v)
	return m, nil
}

func (mm *mixinModel) collide(cat, key string) { mm.collisions = append(mm.collisions, cat+":"+key) }

func isEmptyStr(m obj, k string) bool {
	s, _ := m[k].(string)
	return s == ""
}

func fill(dst, src obj, keys ...string) {
	for _, k := range keys {
		if isEmptyStr(dst, k) {
			if s, _ := src[k].(string); s != "" {
				dst[k] = s
			}
		}
	}
}

func (mm *mixinModel) mergeExt(dst, src obj) {
	for _, k := range sortedKeys(src) {
		if !strings.HasPrefix(strings.ToLower(k), "x-") {
			continue
		}
		if _, ok := dst[k]; ok {
			mm.collide("ext", k)
			continue
		}
		dst[k] = src[k]
	}
}

func hasExt(m obj) bool {
	for k := range m {
		if strings.HasPrefix(strings.ToLower(k), "x-") {
			return true
		}
	}
	return false
}

func (mm *mixinModel) merge(m obj, idx int) {
	E := mm.doc
	mm.mergeExt(E, m)
	fill(E, m, "host", "basePath")
	if mi, ok := asObj(m["info"]); ok {
		if ei, ok := asObj(E["info"]); !ok {
			E["info"] = deepCopy(mi)
		} else {
			mm.mergeExt(ei, mi)
			fill(ei, mi, "description", "title", "termsOfService", "version")
			for _, part := range []string{"contact", "license"} {
				mp, ok := asObj(mi[part])
				if !ok {
					continue
				}
				ep, ok := asObj(ei[part])
				if !ok {
					ei[part] = deepCopy(mp)
					continue
				}
				mm.mergeExt(ep, mp)
				fill(ep, mp, "name", "url", "email")
			}
		}
	}
	if md, ok := asObj(m["externalDocs"]); ok {
		if ed, ok := asObj(E["externalDocs"]); !ok {
			E["externalDocs"] = deepCopy(md)
		} else {
			fill(ed, md, "description", "url")
		}
	}
	for _, k := range []string{"consumes", "produces", "schemes"} {
		ml, _ := asArr(m[k])
		el, _ := asArr(E[k])
		for _, v := range ml {
			found := false
			for _, e := range el {
				if e == v {
					found = true
				}
			}
			if !found {
				el = append(el, v)
			}
		}
		if len(el) > 0 {
			E[k] = el
		}
	}
	{
		ml, _ := asArr(m["tags"])
		el, _ := asArr(E["tags"])
		for _, v := range ml {
			vo, _ := asObj(v)
			found := false
			for _, e := range el {
				eo, _ := asObj(e)
				if eo["name"] == vo["name"] {
					found = true
				}
			}
			if found {
				mm.collide("tag", fmt.Sprint(vo["name"]))
			} else {
				el = append(el, deepCopy(v))
			}
		}
		if len(el) > 0 {
			E["tags"] = el
		}
	}
	{
		ml, _ := asArr(m["security"])
		el, _ := asArr(E["security"])
		for _, v := range ml {
			found := false
			for _, e := range el {
				if jsonEqual(e, v) {
					found = true
				}
			}
			if found {
				mm.collide("secreq", "")
			} else {
				el = append(el, deepCopy(v))
			}
		}
		if len(el) > 0 {
			E["security"] = el
		}
	}
	keyed := func(section, cat string) {
		ms, ok := asObj(m[section])
		if !ok {
			return
		}
		es, ok := asObj(E[section])
		if !ok {
			es = obj{}
		}
		for _, k := range sortedKeys(ms) {
			if section == "paths" && strings.HasPrefix(strings.ToLower(k), "x-") {
				continue
			}
			if _, exists := es[k]; exists {
				mm.collide(cat, k)
				continue
			}
			es[k] = deepCopy(ms[k])
			if section == "paths" {
				mm.origin[k] = idx
			}
		}
		if len(es) > 0 || section == "paths" {
			E[section] = es
		}
	}
	keyed("securityDefinitions", "secdef")
	keyed("definitions", "definition")
	keyed("paths", "path")
	keyed("parameters", "parameter")
	keyed("responses", "response")
}

// ---------------------------------------------------------------------------------------------
// execution + oracles

type mixinObs struct {
	Out     obj
	OutRaw  []byte
	Skipped []string
	Panic   string
	Overrun bool
	Stats   simrt.Stats
}

func runMixin(c *Case, sched Schedule) *mixinObs {
	o := &mixinObs{}
	cfg, _ := sched.config(budgetOf(c))
	load := func(s string) *spec.Swagger {
		sw := new(spec.Swagger)
		if err := json.Unmarshal([]byte(s), sw); err != nil {
			panic(infraError{"mixin document not loadable: " + err.Error()})
		}
		return sw
	}
	simrt.Begin(cfg)
	o.Panic, o.Overrun = guarded(func() {
		primary := load(c.Primary)
		var mixins []*spec.Swagger
		for _, m := range c.Mixins {
			mixins = append(mixins, load(m))
		}
		if c.Split {
			for _, m := range mixins {
				o.Skipped = append(o.Skipped, analysis.Mixin(primary, m)...)
			}
			if len(mixins) == 0 {
				o.Skipped = append(o.Skipped, analysis.Mixin(primary)...)
			}
		} else {
			o.Skipped = analysis.Mixin(primary, mixins...)
		}
		b, err := json.Marshal(primary)
		if err != nil {
			panic(infraError{"marshal merged primary: " + err.Error()})
		}
		o.OutRaw = b
	})
	o.Stats = simrt.End()
	if o.OutRaw != nil {
		v, _ := parseJSON(o.OutRaw)
		o.Out, _ = asObj(v)
	}
	return o
}

var reQuotedKey = regexp.MustCompile(`'([^']*)'`)

// classify maps a returned warning to category:key without depending on the exact wording: the key is what
// stands between single quotes (or the bare string for extension keys); the category is recognised by the
// section word that the message mentions.
func classifySkipped(s string) string {
	t := strings.TrimSpace(s)
	m := reQuotedKey.FindStringSubmatch(t)
	if m == nil {
		return "ext:" + t
	}
	key := m[1]
	low := strings.ToLower(t)
	switch {
	case strings.Contains(low, "security requirement"):
		return "secreq:"
	case strings.Contains(low, "securitydefinitions"):
		return "secdef:" + key
	case strings.Contains(low, "paths"):
		return "path:" + key
	case strings.Contains(low, "definitions"):
		return "definition:" + key
	case strings.Contains(low, "parameters"):
		return "parameter:" + key
	case strings.Contains(low, "responses"):
		return "response:" + key
	case strings.Contains(low, "tags"):
		return "tag:" + key
	}
	return "unknown:" + t
}

func stripOpIDs(doc obj, origin map[string]int) obj {
	d, _ := deepCopy(doc).(map[string]any)
	paths, _ := asObj(d["paths"])
	for p, pi := range paths {
		if origin[p] == 0 {
			continue // primary's own paths: ids must be untouched, compared literally
		}
		pim, _ := asObj(pi)
		for _, m := range methods {
			if op, ok := asObj(pim[m]); ok {
				delete(op, "operationId")
			}
		}
	}
	return d
}

func evalMixin(c *Case) *Verdict {
	v := &Verdict{Index: c.Index}
	if !mixinPrecondition(c) {
		v.Infra = "mixin case violates the C18 precondition (generator bug)"
		return v
	}
	// reference model
	P, err := normSwagger(c.Primary)
	if err != nil {
		v.Infra = "primary not loadable: " + err.Error()
		return v
	}
	mm := &mixinModel{doc: P, origin: map[string]int{}}
	if _, ok := asObj(P["paths"]); !ok {
		P["paths"] = obj{}
	}
	var mixDocs []obj
	for i, ms := range c.Mixins {
		M, err := normSwagger(ms)
		if err != nil {
			v.Infra = "mixin not loadable: " + err.Error()
			return v
		}
		mixDocs = append(mixDocs, M)
		mm.merge(M, i+1)
	}
	expected, err := normSwagger(string(canonJSON(mm.doc)))
	if err != nil {
		v.Infra = "model output not loadable: " + err.Error()
		return v
	}
	wantColl := append([]string(nil), mm.collisions...)
	sort.Strings(wantColl)
	v.count("collisions_expected", int64(len(wantColl)))

	// original ids per (path, method) of the document that contributed the path
	type opKey struct{ path, method string }
	origID := map[opKey]string{}
	allDocs := append([]obj{P}, mixDocs...)
	// P was mutated by the model; recompute from the raw primary
	rawP, _ := normSwagger(c.Primary)
	allDocs[0] = rawP
	for p, idx := range mm.origin {
		_ = p
		_ = idx
	}
	paths, _ := asObj(mm.doc["paths"])
	for p := range paths {
		src := allDocs[mm.origin[p]]
		forEachOp(src, func(pp, m string, op obj) {
			if pp == p {
				id, _ := op["operationId"].(string)
				origID[opKey{p, m}] = id
			}
		})
	}
	idCollisions := 0
	{
		cnt := map[string]int{}
		for _, id := range origID {
			if id != "" {
				cnt[id]++
			}
		}
		for _, n := range cnt {
			if n > 1 {
				idCollisions += n - 1
			}
		}
	}
	v.count("opid_collisions_expected", int64(idCollisions))

	var firstOut []byte
	for si, sched := range c.Schedules {
		o := runMixin(c, sched)
		v.Evals++
		v.Steps += o.Stats.Steps
		if o.Stats.Steps > v.MaxSteps {
			v.MaxSteps = o.Stats.Steps
		}
		v.count("map_visits", o.Stats.MapVisits)
		v.count("perturbed_visits_ge2", o.Stats.Perturbed2)
		if v.SitePert == nil {
			v.SitePert = map[string]int64{}
		}
		sitePertMap(o.Stats, v.SitePert)
		if (len(wantColl) > 0 || idCollisions > 0) && o.Stats.Perturbed2 > 0 {
			v.Nontrivial = true
			v.Distinct = append(v.Distinct, simrt.Mix(simrt.Mix(hashStr(c.Primary+strings.Join(c.Mixins, "|")), uint64(len(c.Mixins))*2+map[bool]uint64{true: 1}[c.Split]), o.Stats.Fingerprint))
		}
		if o.Overrun {
			v.fail(c.Property, "mixin-does-not-terminate", "overrun", fmt.Sprintf("schedule %d", si))
			break
		}
		if o.Panic != "" {
			v.fail(c.Property, "mixin-panics", crashSig(o.Panic), fmt.Sprintf("schedule %d: %s", si, truncate(o.Panic, 600)))
			break
		}
		if firstOut == nil {
			firstOut = o.OutRaw
		}
		if c.Property == "C17" {
			got := stripOpIDs(o.Out, mm.origin)
			want := stripOpIDs(expected, mm.origin)
			if !jsonEqual(got, want) {
				// locate the first differing top-level key
				where := "?"
				keys := map[string]bool{}
				for k := range got {
					keys[k] = true
				}
				for k := range want {
					keys[k] = true
				}
				for _, k := range sortedStrings(keys) {
					if !jsonEqual(got[k], want[k]) {
						where = k
						break
					}
				}
				v.fail("C17", "merged-document-differs-from-model", where, fmt.Sprintf("schedule %d (split=%v): section %q: got %s ; documented rules give %s", si, c.Split, where,
					truncate(string(canonJSON(got[where])), 500), truncate(string(canonJSON(want[where])), 500)))
				break
			}
			var gotColl []string
			for _, s := range o.Skipped {
				gotColl = append(gotColl, classifySkipped(s))
			}
			sort.Strings(gotColl)
			if strings.Join(gotColl, "\n") != strings.Join(wantColl, "\n") {
				v.fail("C17", "collision-list-differs-from-model", collDiffSig(gotColl, wantColl), fmt.Sprintf("schedule %d (split=%v): returned %v ; expected one entry per collision: %v", si, c.Split, gotColl, wantColl))
				break
			}
		}
		if c.Property == "C18" {
			seen := map[string]string{}
			var fail string
			var sig string
			forEachOp(o.Out, func(p, m string, op obj) {
				if fail != "" {
					return
				}
				id, _ := op["operationId"].(string)
				orig, known := origID[opKey{p, m}]
				where := strings.ToUpper(m) + " " + p
				if !known {
					return
				}
				if orig == "" && id != "" {
					fail, sig = fmt.Sprintf("operation %s had no operationId and now has %q", where, id), "idless-renamed"
					return
				}
				if id != "" {
					if other, dup := seen[id]; dup {
						fail, sig = fmt.Sprintf("operationId %q is carried by both %s and %s", id, other, where), "duplicate-id@"+m
						return
					}
					seen[id] = where
				}
				if id != orig {
					if !(strings.HasPrefix(id, orig) && reMixinSuffix.MatchString(id) && reMixinSuffix.ReplaceAllString(id, "") == orig) {
						fail, sig = fmt.Sprintf("operationId of %s changed from %q to %q (not a Mixin<N> suffix)", where, orig, id), "bad-rename"
						return
					}
					if mm.origin[p] == 0 {
						fail, sig = fmt.Sprintf("operationId of the primary's own %s changed from %q to %q", where, orig, id), "primary-renamed"
						return
					}
					// renamed: the original must collide with another operation's original id
					n := 0
					for _, oid := range origID {
						if oid == orig {
							n++
						}
					}
					if n < 2 {
						fail, sig = fmt.Sprintf("operationId of %s renamed from %q to %q although it collides with nothing", where, orig, id), "needless-rename"
					}
				}
			})
			if fail != "" {
				v.fail("C18", "operation-ids", sig, fmt.Sprintf("schedule %d (split=%v): %s", si, c.Split, fail))
				break
			}
		}
	}
	return v
}

func collDiffSig(got, want []string) string {
	cnt := map[string]int{}
	for _, g := range got {
		cnt[strings.SplitN(g, ":", 2)[0]]++
	}
	for _, w := range want {
		cnt[strings.SplitN(w, ":", 2)[0]]--
	}
	var cats []string
	for k, n := range cnt {
		if n != 0 {
			cats = append(cats, k)
		}
	}
	sort.Strings(cats)
	if len(cats) == 0 {
		return "keys"
	}
	return strings.Join(cats, ",")
}
