package main

import (
	"bytes"
	"encoding/json"
	"fmt"
	"regexp"
	"strings"

	"simrt"

	"github.com/go-openapi/analysis"
	"github.com/go-openapi/spec"
)

// errSig classifies a Flatten error into a stable signature (for known-finding matching and minimisation).
func errSig(o *flatObs) string {
	switch {
	case o.Overrun:
		return "overrun"
	case o.Panic != "":
		return "panic@" + crashSig(o.Panic)
	case o.LoadErr != "":
		return "root-unloadable"
	}
	return "error:" + normMsg(o.Err)
}

var reQuoted = regexp.MustCompile(`"[^"]*"`)
var rePath = regexp.MustCompile(`(file://)?/simfs/[^\s:"']*`)
var reKey = regexp.MustCompile(`#/[^\s:"']*`)
var reNum = regexp.MustCompile(`[0-9]+`)

// normMsg drops the variable parts (names, paths, numbers) of an error message so that the same failure mode at
// a different input has the same signature.
func normMsg(e string) string {
	e = strings.ReplaceAll(e, "\n", " ")
	e = reQuoted.ReplaceAllString(e, "<q>")
	e = rePath.ReplaceAllString(e, "<path>")
	e = reKey.ReplaceAllString(e, "<key>")
	e = reNum.ReplaceAllString(e, "N")
	return truncate(e, 110)
}

func modeOf(o FlatOpts) string {
	switch {
	case o.Minimal:
		return "minimal"
	case o.Expand:
		return "expand"
	}
	return "full"
}

func diffAt(a, b []byte) string {
	n := len(a)
	if len(b) < n {
		n = len(b)
	}
	i := 0
	for i < n && a[i] == b[i] {
		i++
	}
	lo := i - 60
	if lo < 0 {
		lo = 0
	}
	ha, hb := i+100, i+100
	if ha > len(a) {
		ha = len(a)
	}
	if hb > len(b) {
		hb = len(b)
	}
	return fmt.Sprintf("first difference at byte %d: …%s… vs …%s…", i, a[lo:ha], b[lo:hb])
}

func defNames(out []byte) []string {
	v, err := parseJSON(out)
	if err != nil {
		return nil
	}
	root, _ := asObj(v)
	defs, _ := asObj(root["definitions"])
	return sortedKeys(defs)
}

func evalFlatten(c *Case) *Verdict {
	v := &Verdict{Index: c.Index}
	prop := c.Property
	var first *flatObs
	var firstSched Schedule
	cyclic := hasRefCycle(c.Disk, c.Root)
	if cyclic {
		v.count("bundles_with_ref_cycle", 1)
	} else {
		v.count("bundles_acyclic", 1)
	}
	v.count("optset_"+c.Opts.String(), 1)
	outs := map[uint64]bool{}
	for si, sched := range c.Schedules {
		heartbeat()
		o := runFlatten(c, sched, nil, nil)
		addObs(v, o)
		if o.Stats.Perturbed2 > 0 || sched.KeyPerm != 0 {
			v.Nontrivial = v.Nontrivial || (o.ok() && !bytes.Equal(o.Out, o.InputBytes))
			v.Distinct = append(v.Distinct, simrt.Mix(simrt.Mix(hashStr(c.Disk[c.Root]), hashStr(c.Opts.String())), o.Stats.Fingerprint^sched.KeyPerm))
		}
		if o.ok() {
			outs[fnv64(o.Out)] = true
			v.OutHash = fnv64(o.Out)
		}
		if first == nil {
			first, firstSched = o, sched
		}
		_ = firstSched
		switch prop {
		case "C04":
			if !o.ok() {
				v.fail("C04", "flatten-rejects-wellformed-bundle", modeOf(c.Opts)+"|"+errSig(o), fmt.Sprintf("schedule %d, options %s: %s", si, c.Opts, o.status()))
			}
		case "C01":
			if o.ok() {
				if cl, d := checkMeaning(c.Disk, c.Root, o.Out, c.Opts); cl != "" {
					v.fail("C01", cl, meaningSig, fmt.Sprintf("schedule %d, options %s: %s", si, c.Opts, d))
				}
			}
		case "C02":
			if o.ok() && !c.Opts.Expand {
				if cl, sig, d := checkCanonical(o.Out, false); cl != "" {
					v.fail("C02", cl, sig, fmt.Sprintf("schedule %d, options %s: %s", si, c.Opts, d))
				}
			}
		case "C03":
			if o.ok() && !c.Opts.Expand && !c.Opts.Minimal {
				if cl, sig, d := checkComplex(c.Disk, c.Root, o.Out); cl != "" {
					v.fail("C03", cl, sig, fmt.Sprintf("schedule %d, options %s: %s", si, c.Opts, d))
				}
				// existing definitions keep their name and are not overwritten: the definition part of the C01 oracle
				if cl, d := checkMeaningTolerant(c.Disk, c.Root, o.Out, c.Opts); cl == "meaning-definition" || cl == "meaning-definition-lost" {
					v.fail("C03", "existing-definition-overwritten", "", fmt.Sprintf("schedule %d: %s", si, d))
				}
			}
		case "C05":
			if o.ok() && c.Opts.Expand {
				if cl, sig, d := checkCanonical(o.Out, true); cl != "" {
					v.fail("C05", "expand-"+cl, sig, fmt.Sprintf("schedule %d: %s", si, d))
				}
				if cl, d := checkMeaningTolerant(c.Disk, c.Root, o.Out, c.Opts); cl != "" {
					v.fail("C05", "expand-"+cl, "", fmt.Sprintf("schedule %d: %s", si, d))
				}
				if !cyclic {
					var refs []string
					pv, _ := parseJSON(o.Out)
					if pr, ok := asObj(pv); ok {
						// vendor extensions at the top level are opaque data, not part of the API description
						for _, k := range sortedKeys(pr) {
							if !strings.HasPrefix(k, "x-") {
								blindRefs(pr[k], &refs)
							}
						}
					}
					if len(refs) > 0 {
						v.fail("C05", "expand-ref-left-in-acyclic-bundle", "", fmt.Sprintf("schedule %d: acyclic bundle, but $ref %q remains", si, refs[0]))
					}
					if first.ok() && !bytes.Equal(first.Out, o.Out) {
						v.fail("C05", "expand-not-reproducible", "", fmt.Sprintf("schedule %d vs 0: %s", si, diffAt(first.Out, o.Out)))
					}
				}
			}
		case "C06":
			if c.Opts.RemoveUnused {
				if o.Overrun {
					v.fail("C06", "remove-unused-does-not-terminate", "overrun", fmt.Sprintf("schedule %d, options %s: no result within %d logical steps", si, c.Opts, budgetOf(c)))
				}
				if o.ok() {
					if cl, sig, d := checkRemoveUnused(o.Out); cl != "" {
						v.fail("C06", cl, sig, fmt.Sprintf("schedule %d, options %s: %s", si, c.Opts, d))
					}
					if cl, d := checkMeaningTolerant(c.Disk, c.Root, o.Out, c.Opts); cl == "meaning-operation" || cl == "meaning-paths" {
						v.fail("C06", "operations-changed", "", fmt.Sprintf("schedule %d: %s", si, d))
					}
				}
			}
		case "C07":
			if si > 0 {
				if first.ok() != o.ok() {
					v.fail("C07", "outcome-differs-across-schedules", "", fmt.Sprintf("schedule 0: %s; schedule %d: %s", first.status(), si, o.status()))
				} else if o.ok() && !bytes.Equal(first.Out, o.Out) {
					v.fail("C07", "bytes-differ-across-schedules", "", fmt.Sprintf("schedule 0 vs %d (options %s): %s; definitions %v vs %v", si, c.Opts, diffAt(first.Out, o.Out), defNames(first.Out), defNames(o.Out)))
				}
			}
		case "C08":
			if o.ok() && !c.Opts.Expand {
				evalSecondPass(c, v, o, sched, si)
			}
		case "C10":
			if o.ok() {
				evalSync(c, v, o, si)
			}
		}
		if len(v.Failures) > 0 {
			break
		}
	}
	v.count("distinct_outputs_per_case", int64(len(outs)))
	if first != nil && !first.ok() {
		v.count("first_run_not_ok", 1)
	}
	return v
}

// evalSecondPass is C08: flatten the flattened document again, with the auxiliary files gone.
func evalSecondPass(c *Case, v *Verdict, o *flatObs, sched Schedule, si int) {
	onlyRoot := map[string]string{c.Root: string(o.Out)}
	sched2 := sched
	sched2.Seed = simrt.Mix(sched.Seed, 0xc08)
	// (a) same in-memory document, same Spec object
	{
		disk := &simDisk{files: onlyRoot, fired: map[string]int{}}
		cfg, _ := sched2.config(budgetOf(c))
		curDisk = disk
		simrt.Begin(cfg)
		var ferr error
		var out []byte
		p, over := guarded(func() {
			ferr = analysis.Flatten(toFlattenOpts(c.Opts, o.An, c.Root))
			if ferr == nil {
				out, _ = json.Marshal(o.Doc)
			}
		})
		st := simrt.End()
		curDisk = nil
		v.Evals++
		v.Steps += st.Steps
		v.Loads += int64(len(disk.log))
		v.count("second_pass_loads", int64(len(disk.log)))
		switch {
		case over:
			v.fail("C08", "second-pass-does-not-terminate", "same-object", fmt.Sprintf("schedule %d, options %s", si, c.Opts))
		case p != "":
			v.fail("C08", "second-pass-panics", "same-object@"+crashSig(p), fmt.Sprintf("schedule %d, options %s: %s", si, c.Opts, truncate(p, 500)))
		case ferr != nil:
			v.fail("C08", "second-pass-fails", "same-object", fmt.Sprintf("schedule %d, options %s: %v (loads attempted: %d)", si, c.Opts, ferr, len(disk.log)))
		case !bytes.Equal(out, o.Out):
			v.fail("C08", "second-pass-changes-document", "same-object", fmt.Sprintf("schedule %d, options %s: %s", si, c.Opts, diffAt(o.Out, out)))
		}
	}
	if len(v.Failures) > 0 {
		return
	}
	// (b) serialise, reload, fresh analyzer
	{
		disk := &simDisk{files: onlyRoot, fired: map[string]int{}}
		cfg, _ := sched2.config(budgetOf(c))
		curDisk = disk
		simrt.Begin(cfg)
		var ferr error
		var out []byte
		p, over := guarded(func() {
			doc := new(spec.Swagger)
			if ferr = json.Unmarshal(o.Out, doc); ferr != nil {
				return
			}
			ferr = analysis.Flatten(toFlattenOpts(c.Opts, analysis.New(doc), c.Root))
			if ferr == nil {
				out, _ = json.Marshal(doc)
			}
		})
		st := simrt.End()
		curDisk = nil
		v.Evals++
		v.Steps += st.Steps
		v.Loads += int64(len(disk.log))
		v.count("second_pass_loads", int64(len(disk.log)))
		switch {
		case over:
			v.fail("C08", "second-pass-does-not-terminate", "reloaded", fmt.Sprintf("schedule %d, options %s", si, c.Opts))
		case p != "":
			v.fail("C08", "second-pass-panics", "reloaded@"+crashSig(p), fmt.Sprintf("schedule %d, options %s: %s", si, c.Opts, truncate(p, 500)))
		case ferr != nil:
			v.fail("C08", "second-pass-fails", "reloaded", fmt.Sprintf("schedule %d, options %s: %v (loads attempted: %d)", si, c.Opts, ferr, len(disk.log)))
		case !bytes.Equal(out, o.Out):
			v.fail("C08", "second-pass-changes-document", "reloaded", fmt.Sprintf("schedule %d, options %s: %s", si, c.Opts, diffAt(o.Out, out)))
		}
	}
}
