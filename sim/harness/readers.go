package main

import (
	"encoding/json"
	"fmt"
	"math"
	"reflect"
	"sort"
	"strings"
	"sync"
	"unsafe"

	"simrt"

	"github.com/go-openapi/analysis"
	"github.com/go-openapi/spec"
)

// C16: analysis is read-only, copy-safe and safe for concurrent readers.

// ---------------------------------------------------------------------------------------------
// deep state hash (exported and unexported fields, slices up to capacity)

type stateHasher struct {
	visited map[uintptr]bool
}

func hmix(a, b uint64) uint64 { return simrt.Mix(a, b) }

func hashString(s string) uint64 {
	h := uint64(0xcbf29ce484222325)
	for i := 0; i < len(s); i++ {
		h = (h ^ uint64(s[i])) * 0x100000001b3
	}
	return h
}

func (sh *stateHasher) hash(v reflect.Value) uint64 {
	switch v.Kind() {
	case reflect.Invalid:
		return 1
	case reflect.Bool:
		if v.Bool() {
			return 3
		}
		return 2
	case reflect.Int, reflect.Int8, reflect.Int16, reflect.Int32, reflect.Int64:
		return hmix(4, uint64(v.Int()))
	case reflect.Uint, reflect.Uint8, reflect.Uint16, reflect.Uint32, reflect.Uint64, reflect.Uintptr:
		return hmix(5, v.Uint())
	case reflect.Float32, reflect.Float64:
		return hmix(6, math.Float64bits(v.Float()))
	case reflect.String:
		return hmix(7, hashString(v.String()))
	case reflect.Ptr:
		if v.IsNil() {
			return 8
		}
		p := v.Pointer()
		if sh.visited[p] {
			return 9
		}
		sh.visited[p] = true
		return hmix(10, sh.hash(v.Elem()))
	case reflect.Interface:
		if v.IsNil() {
			return 11
		}
		e := v.Elem()
		return hmix(hmix(12, hashString(e.Type().String())), sh.hash(e))
	case reflect.Struct:
		h := uint64(13)
		for i := 0; i < v.NumField(); i++ {
			f := v.Field(i)
			if !f.CanInterface() && f.CanAddr() {
				f = reflect.NewAt(f.Type(), unsafe.Pointer(f.UnsafeAddr())).Elem()
			}
			h = hmix(h, sh.hash(f))
		}
		return h
	case reflect.Slice:
		if v.IsNil() {
			return 14
		}
		h := hmix(15, uint64(v.Len()))
		full := v
		if v.Cap() > v.Len() {
			full = v.Slice(0, v.Cap())
		}
		for i := 0; i < full.Len(); i++ {
			h = hmix(h, sh.hash(full.Index(i)))
		}
		return h
	case reflect.Array:
		h := uint64(16)
		for i := 0; i < v.Len(); i++ {
			h = hmix(h, sh.hash(v.Index(i)))
		}
		return h
	case reflect.Map:
		if v.IsNil() {
			return 17
		}
		// order-independent combination
		var sum uint64 = uint64(v.Len()) * 0x9e3779b97f4a7c15
		it := v.MapRange()
		for it.Next() {
			sum += hmix(sh.hash(it.Key()), sh.hash(it.Value()))
		}
		return hmix(18, sum)
	case reflect.Func, reflect.Chan, reflect.UnsafePointer:
		if v.IsNil() {
			return 19
		}
		return 20
	}
	return 21
}

func stateHash(an *analysis.Spec, doc *spec.Swagger) uint64 {
	sh := &stateHasher{visited: map[uintptr]bool{}}
	return hmix(sh.hash(reflect.ValueOf(an)), sh.hash(reflect.ValueOf(doc)))
}

// ---------------------------------------------------------------------------------------------
// generator

func genReadersCase(thorough bool, r *R, seed uint64, index int64) *Case {
	c := &Case{Property: "C16", Kind: "readers", Index: index, GenSeed: seed}
	opts := FlatOpts{Minimal: r.P(50)}
	disk, root, feats := genBundle(r.Fork(), opts, false, thorough, forcedFeatures())
	c.Features = feats
	c.Doc = disk[root]
	if r.P(40) {
		// a flattened document (flattening happens here, at generation time, under the canonical schedule)
		tmp := &Case{Disk: disk, Root: root, Opts: opts}
		if o := runFlatten(tmp, Schedule{}, nil, nil); o.ok() {
			c.Doc = string(o.Out)
			c.Flattened = true
		}
	}
	if !c.Flattened && len(disk) > 1 && r.P(12) {
		// a models-only document: one of the auxiliary documents (definitions, shared objects, no operation at all)
		var aux []string
		for p := range disk {
			if p != root {
				aux = append(aux, p)
			}
		}
		sort.Strings(aux)
		c.Doc = disk[aux[r.Intn(len(aux))]]
		c.Features = append(c.Features, "modelsOnlyDoc")
	}
	doc := new(spec.Swagger)
	if err := json.Unmarshal([]byte(c.Doc), doc); err != nil {
		panic(infraError{"generated document not loadable: " + err.Error()})
	}
	calls := allCalls(doc)
	maxReaders := 4
	if thorough {
		maxReaders = 6
	}
	n := r.Range(2, maxReaders)
	// swarm: each case focuses on 1-3 methods (with all their argument variants), so that the same getter — or one
	// particular pair of getters — is frequently inside several readers at once; the rest is drawn from everything
	byMethod := map[string][]Call{}
	var methodNames []string
	for _, cl := range calls {
		if _, ok := byMethod[cl.M]; !ok {
			methodNames = append(methodNames, cl.M)
		}
		byMethod[cl.M] = append(byMethod[cl.M], cl)
	}
	var focus []Call
	for i := 0; i < r.Range(1, 3); i++ {
		focus = append(focus, byMethod[methodNames[r.Intn(len(methodNames))]]...)
	}
	focusPct := []int{0, 50, 80}[r.Intn(3)]
	for i := 0; i < n; i++ {
		var prog []Call
		k := r.Range(3, 12)
		for j := 0; j < k; j++ {
			if r.P(focusPct) {
				prog = append(prog, focus[r.Intn(len(focus))])
			} else {
				prog = append(prog, calls[r.Intn(len(calls))])
			}
		}
		c.Readers = append(c.Readers, prog)
	}
	nd := r.Range(20, 200)
	swPct := []int{10, 30, 60}[r.Intn(3)]
	for i := 0; i < nd; i++ {
		if r.P(swPct) {
			c.Decisions = append(c.Decisions, uint8(1+r.Intn(5)))
		} else {
			c.Decisions = append(c.Decisions, 0)
		}
	}
	c.Schedules = []Schedule{{}}
	if r.P(50) {
		c.Schedules = []Schedule{perturbedSchedule(r)}
	}
	return c
}

// ---------------------------------------------------------------------------------------------

var mapGetters = []string{"ParameterPatterns", "HeaderPatterns", "ItemsPatterns", "SchemaPatterns", "AllPatterns",
	"ParameterEnums", "HeaderEnums", "ItemsEnums", "SchemaEnums", "AllEnums"}

// copySafety mutates the maps returned by the pattern/enum getters and asks again.
func copySafety(an *analysis.Spec) (string, string) {
	sm := map[string]func() map[string]string{
		"ParameterPatterns": an.ParameterPatterns, "HeaderPatterns": an.HeaderPatterns, "ItemsPatterns": an.ItemsPatterns,
		"SchemaPatterns": an.SchemaPatterns, "AllPatterns": an.AllPatterns}
	em := map[string]func() map[string][]interface{}{
		"ParameterEnums": an.ParameterEnums, "HeaderEnums": an.HeaderEnums, "ItemsEnums": an.ItemsEnums,
		"SchemaEnums": an.SchemaEnums, "AllEnums": an.AllEnums}
	for _, name := range mapGetters {
		if f, ok := sm[name]; ok {
			before := jsonOf(f())
			m := f()
			for k := range m {
				delete(m, k)
			}
			m["injected"] = "x"
			if after := jsonOf(f()); after != before {
				return name, fmt.Sprintf("%s returned its internal map: after mutating the returned map the getter answers %s instead of %s", name, truncate(after, 300), truncate(before, 300))
			}
		}
		if f, ok := em[name]; ok {
			before := jsonOf(f())
			m := f()
			for k := range m {
				delete(m, k)
			}
			m["injected"] = []interface{}{"x"}
			if after := jsonOf(f()); after != before {
				return name, fmt.Sprintf("%s returned its internal map: after mutating the returned map the getter answers %s instead of %s", name, truncate(after, 300), truncate(before, 300))
			}
		}
	}
	return "", ""
}

func evalReaders(c *Case) *Verdict {
	v := &Verdict{Index: c.Index}
	sched := Schedule{}
	if len(c.Schedules) > 0 {
		sched = c.Schedules[0]
	}
	cfg, _ := sched.config(budgetOf(c))
	doc := new(spec.Swagger)
	if err := json.Unmarshal([]byte(c.Doc), doc); err != nil {
		v.Infra = "C16 document not loadable: " + err.Error()
		return v
	}
	docBefore, _ := json.Marshal(doc)

	// --- build + sequential reference run (also: read-only-ness call by call, copy-safety)
	simrt.Begin(cfg)
	var an *analysis.Spec
	var s0 uint64
	expected := make([][]string, len(c.Readers))
	var seqFail, seqSig string
	p, over := guarded(func() {
		an = analysis.New(doc)
		if after, _ := json.Marshal(doc); string(after) != string(docBefore) {
			seqFail, seqSig = "analysis.New modified the document: "+diffAt(docBefore, after), "New"
			return
		}
		s0 = stateHash(an, doc)
		for ri, prog := range c.Readers {
			for _, call := range prog {
				expected[ri] = append(expected[ri], invoke(an, doc, call))
				if h := stateHash(an, doc); h != s0 && seqFail == "" {
					seqFail, seqSig = fmt.Sprintf("state of the analyzed Spec / document changed during %s (sequential run)", callKey(call)), call.M
					return
				}
			}
		}
		if g, d := copySafety(an); g != "" {
			seqFail, seqSig = d, g
			return
		}
		if h := stateHash(an, doc); h != s0 {
			seqFail, seqSig = "state changed after mutating maps returned by the pattern/enum getters", "copy"
		}
	})
	st := simrt.End()
	v.Evals++
	v.Steps += st.Steps
	if over {
		v.fail("C16", "getter-does-not-terminate", "sequential", "sequential reference run exceeded the step budget")
		return v
	}
	if p != "" {
		v.fail("C16", "analysis-panics", crashSig(p), truncate(p, 600))
		return v
	}
	if seqFail != "" {
		clause := "getter-mutates-state"
		if strings.Contains(seqFail, "internal map") {
			clause = "returned-map-not-a-copy"
		}
		v.fail("C16", clause, seqSig, seqFail)
		return v
	}

	// --- interleaved run: real goroutines, one at a time, decided by c.Decisions
	n := len(c.Readers)
	answers := make([][]string, n)
	simrt.Begin(cfg)
	hashFn := func() uint64 { return stateHash(an, doc) }
	simrt.SchedBegin(n, c.Decisions, hashFn, s0)
	var wg sync.WaitGroup
	panics := make([]string, n)
	for i := 0; i < n; i++ {
		wg.Add(1)
		go func(id int) {
			defer wg.Done()
			simrt.ReaderEnter(id)
			defer simrt.ReaderExit(id)
			defer func() {
				if r := recover(); r != nil {
					if _, ok := r.(simrt.BudgetExceeded); ok {
						panics[id] = "overrun"
						return
					}
					panics[id] = fmt.Sprint(r)
				}
			}()
			for _, call := range c.Readers[id] {
				answers[id] = append(answers[id], invoke(an, doc, call))
			}
		}(i)
	}
	simrt.SchedStart()
	wg.Wait()
	trace := simrt.SchedTrace()
	st2 := simrt.End()
	v.Evals++
	v.Steps += st2.Steps
	if st2.Steps > v.MaxSteps {
		v.MaxSteps = st2.Steps
	}
	v.SitePert = map[string]int64{}
	sitePertMap(st, v.SitePert)
	sitePertMap(st2, v.SitePert)
	v.count("map_visits", st.MapVisits+st2.MapVisits)
	v.count("perturbed_visits_ge2", st.Perturbed2+st2.Perturbed2)
	v.count("yields", st2.Yields)
	v.count("context_switches", st2.Switches)
	if st2.Switches > 0 {
		v.Nontrivial = true
		th := uint64(len(trace))
		for _, t := range trace {
			th = hmix(th, uint64(t))
		}
		progs, _ := json.Marshal(c.Readers)
		v.Distinct = append(v.Distinct, hmix(hmix(hashStr(c.Doc), fnv64(progs)), th))
	}
	for i, pm := range panics {
		if pm != "" {
			v.fail("C16", "reader-panics", "reader", fmt.Sprintf("reader %d: %s", i, truncate(pm, 400)))
			return v
		}
	}
	if st2.StateMismatch != 0 {
		site := "?"
		if int(st2.MismatchSite) < len(sites.YieldSites) {
			site = sites.YieldSites[st2.MismatchSite]
		}
		fn := site
		if i := strings.Index(fn, "@"); i > 0 {
			fn = fn[:i]
		}
		v.fail("C16", "state-changed-during-concurrent-reads", fn, fmt.Sprintf("at yield %d (%s) the deep hash of Spec+document differs from the hash taken after New", st2.StateMismatch, site))
		return v
	}
	if h := stateHash(an, doc); h != s0 {
		v.fail("C16", "state-changed-during-concurrent-reads", "final", "deep hash of Spec+document after the interleaved run differs from the hash taken after New")
		return v
	}
	for ri := range c.Readers {
		for ci := range c.Readers[ri] {
			if ci >= len(answers[ri]) || answers[ri][ci] != expected[ri][ci] {
				got := "<missing>"
				if ci < len(answers[ri]) {
					got = answers[ri][ci]
				}
				v.fail("C16", "answer-differs-from-sequential", c.Readers[ri][ci].M, fmt.Sprintf("reader %d call %d %s: interleaved answer %s ; sequential answer %s", ri, ci, callKey(c.Readers[ri][ci]), truncate(got, 300), truncate(expected[ri][ci], 300)))
				return v
			}
		}
	}
	if after, _ := json.Marshal(doc); string(after) != string(docBefore) {
		v.fail("C16", "document-modified", "final", diffAt(docBefore, after))
	}
	return v
}
