package main

func genReadersCase(thorough bool, r *R, seed uint64, index int64) *Case {
	panic(infraError{"C16 not built yet"})
}
func evalReaders(c *Case) *Verdict { return &Verdict{Infra: "C16 not built yet"} }
