package main

import (
	"encoding/json"
	"fmt"
	"reflect"
	"sort"
	"strings"

	"simrt"

	"github.com/go-openapi/analysis"
	"github.com/go-openapi/spec"
)

// GetterSurface: every public method of *analysis.Spec has a driver here. The method set is enumerated by
// reflection at start-up and a public method without driver is an infrastructure error (exit 2), so that
// "all public query methods" stays true when the API changes.

var getterDrivers = map[string]func(an *analysis.Spec, doc *spec.Swagger, args []string) string{}

func jsonOf(v any) string {
	b, err := json.Marshal(v)
	if err != nil {
		return "marshal-error: " + err.Error()
	}
	return string(b)
}

func sortedStringsCopy(xs []string) []string {
	if xs == nil {
		return nil
	}
	out := append([]string{}, xs...)
	sort.Strings(out)
	return out
}

func schemaRefsDump(refs []analysis.SchemaRef) string {
	type e struct {
		Name     string
		Ref      string
		TopLevel bool
		Schema   string
	}
	out := make([]e, 0, len(refs))
	for _, r := range refs {
		out = append(out, e{r.Name, r.Ref.String(), r.TopLevel, jsonOf(r.Schema)})
	}
	sort.Slice(out, func(i, j int) bool {
		if out[i].Name != out[j].Name {
			return out[i].Name < out[j].Name
		}
		return out[i].Ref < out[j].Ref
	})
	return jsonOf(out)
}

func findOp(doc *spec.Swagger, method, path string) *spec.Operation {
	if doc == nil || doc.Paths == nil {
		return nil
	}
	pi, ok := doc.Paths.Paths[path]
	if !ok {
		return nil
	}
	switch strings.ToUpper(method) {
	case "GET":
		return pi.Get
	case "PUT":
		return pi.Put
	case "POST":
		return pi.Post
	case "DELETE":
		return pi.Delete
	case "OPTIONS":
		return pi.Options
	case "HEAD":
		return pi.Head
	case "PATCH":
		return pi.Patch
	}
	return nil
}

func paramsDump(ps []spec.Parameter) string {
	out := make([]string, 0, len(ps))
	for _, p := range ps {
		out = append(out, jsonOf(p))
	}
	sort.Strings(out)
	return "[" + strings.Join(out, ",") + "]"
}

func arg(args []string, i int) string {
	if i < len(args) {
		return args[i]
	}
	return ""
}

func opArg(an *analysis.Spec, doc *spec.Swagger, args []string, f func(op *spec.Operation) string) string {
	op := findOp(doc, arg(args, 0), arg(args, 1))
	if op == nil {
		return "no-such-operation"
	}
	return f(op)
}

func init() {
	d := getterDrivers
	strs := func(f func(an *analysis.Spec) []string) func(*analysis.Spec, *spec.Swagger, []string) string {
		return func(an *analysis.Spec, _ *spec.Swagger, _ []string) string { return jsonOf(sortedStringsCopy(f(an))) }
	}
	d["AllDefinitionReferences"] = strs((*analysis.Spec).AllDefinitionReferences)
	d["AllParameterReferences"] = strs((*analysis.Spec).AllParameterReferences)
	d["AllResponseReferences"] = strs((*analysis.Spec).AllResponseReferences)
	d["AllPathItemReferences"] = strs((*analysis.Spec).AllPathItemReferences)
	d["AllItemsReferences"] = strs((*analysis.Spec).AllItemsReferences)
	d["AllReferences"] = strs((*analysis.Spec).AllReferences)
	d["OperationIDs"] = strs((*analysis.Spec).OperationIDs)
	d["OperationMethodPaths"] = strs((*analysis.Spec).OperationMethodPaths)
	d["RequiredConsumes"] = strs((*analysis.Spec).RequiredConsumes)
	d["RequiredProduces"] = strs((*analysis.Spec).RequiredProduces)
	d["RequiredSecuritySchemes"] = strs((*analysis.Spec).RequiredSecuritySchemes)
	d["AllRefs"] = func(an *analysis.Spec, _ *spec.Swagger, _ []string) string {
		var out []string
		for _, r := range an.AllRefs() {
			out = append(out, r.String())
		}
		sort.Strings(out)
		return jsonOf(out)
	}
	d["SchemasWithAllOf"] = func(an *analysis.Spec, _ *spec.Swagger, _ []string) string {
		return schemaRefsDump(an.SchemasWithAllOf())
	}
	d["AllDefinitions"] = func(an *analysis.Spec, _ *spec.Swagger, _ []string) string {
		return schemaRefsDump(an.AllDefinitions())
	}
	smap := func(f func(an *analysis.Spec) map[string]string) func(*analysis.Spec, *spec.Swagger, []string) string {
		return func(an *analysis.Spec, _ *spec.Swagger, _ []string) string { return jsonOf(f(an)) }
	}
	emap := func(f func(an *analysis.Spec) map[string][]interface{}) func(*analysis.Spec, *spec.Swagger, []string) string {
		return func(an *analysis.Spec, _ *spec.Swagger, _ []string) string { return jsonOf(f(an)) }
	}
	d["ParameterPatterns"] = smap((*analysis.Spec).ParameterPatterns)
	d["HeaderPatterns"] = smap((*analysis.Spec).HeaderPatterns)
	d["ItemsPatterns"] = smap((*analysis.Spec).ItemsPatterns)
	d["SchemaPatterns"] = smap((*analysis.Spec).SchemaPatterns)
	d["AllPatterns"] = smap((*analysis.Spec).AllPatterns)
	d["ParameterEnums"] = emap((*analysis.Spec).ParameterEnums)
	d["HeaderEnums"] = emap((*analysis.Spec).HeaderEnums)
	d["ItemsEnums"] = emap((*analysis.Spec).ItemsEnums)
	d["SchemaEnums"] = emap((*analysis.Spec).SchemaEnums)
	d["AllEnums"] = emap((*analysis.Spec).AllEnums)
	d["AllPaths"] = func(an *analysis.Spec, _ *spec.Swagger, _ []string) string { return jsonOf(an.AllPaths()) }
	d["Operations"] = func(an *analysis.Spec, doc *spec.Swagger, _ []string) string {
		ops := an.Operations()
		type e struct {
			Method, Path string
			Op           string
			InDoc        bool // the returned pointer is the document's own operation object
		}
		var out []e
		for m, byPath := range ops {
			for p, op := range byPath {
				out = append(out, e{m, p, jsonOf(op), op != nil && findOp(doc, m, p) == op})
			}
		}
		sort.Slice(out, func(i, j int) bool {
			if out[i].Method != out[j].Method {
				return out[i].Method < out[j].Method
			}
			return out[i].Path < out[j].Path
		})
		return jsonOf(out)
	}
	d["OperationFor"] = func(an *analysis.Spec, doc *spec.Swagger, args []string) string {
		op, ok := an.OperationFor(arg(args, 0), arg(args, 1))
		return fmt.Sprintf("%v %v %s", ok, op != nil && op == findOp(doc, arg(args, 0), arg(args, 1)), jsonOf(op))
	}
	d["OperationForName"] = func(an *analysis.Spec, doc *spec.Swagger, args []string) string {
		m, p, op, ok := an.OperationForName(arg(args, 0))
		return fmt.Sprintf("%v %s %s %v %s", ok, m, p, op != nil && op == findOp(doc, m, p), jsonOf(op))
	}
	d["ParametersFor"] = func(an *analysis.Spec, _ *spec.Swagger, args []string) string {
		return paramsDump(an.ParametersFor(arg(args, 0)))
	}
	d["SafeParametersFor"] = func(an *analysis.Spec, _ *spec.Swagger, args []string) string {
		var errs []string
		ps := an.SafeParametersFor(arg(args, 0), func(p spec.Parameter, err error) bool {
			errs = append(errs, err.Error())
			return true
		})
		sort.Strings(errs)
		return paramsDump(ps) + jsonOf(errs)
	}
	pmap := func(m map[string]spec.Parameter) string { return jsonOf(m) }
	d["ParamsFor"] = func(an *analysis.Spec, _ *spec.Swagger, args []string) string {
		return pmap(an.ParamsFor(arg(args, 0), arg(args, 1)))
	}
	d["SafeParamsFor"] = func(an *analysis.Spec, _ *spec.Swagger, args []string) string {
		var errs []string
		m := an.SafeParamsFor(arg(args, 0), arg(args, 1), func(p spec.Parameter, err error) bool {
			errs = append(errs, err.Error())
			return true
		})
		sort.Strings(errs)
		return pmap(m) + jsonOf(errs)
	}
	d["ConsumesFor"] = func(an *analysis.Spec, doc *spec.Swagger, args []string) string {
		return opArg(an, doc, args, func(op *spec.Operation) string { return jsonOf(sortedStringsCopy(an.ConsumesFor(op))) })
	}
	d["ProducesFor"] = func(an *analysis.Spec, doc *spec.Swagger, args []string) string {
		return opArg(an, doc, args, func(op *spec.Operation) string { return jsonOf(sortedStringsCopy(an.ProducesFor(op))) })
	}
	secReqDump := func(reqs [][]analysis.SecurityRequirement) string {
		var outer []string
		for _, rs := range reqs {
			var inner []string
			for _, r := range rs {
				inner = append(inner, r.Name+":"+strings.Join(r.Scopes, ","))
			}
			sort.Strings(inner)
			outer = append(outer, strings.Join(inner, ";"))
		}
		if reqs == nil {
			return "nil"
		}
		return jsonOf(outer)
	}
	d["SecurityRequirementsFor"] = func(an *analysis.Spec, doc *spec.Swagger, args []string) string {
		return opArg(an, doc, args, func(op *spec.Operation) string { return secReqDump(an.SecurityRequirementsFor(op)) })
	}
	d["SecurityDefinitionsFor"] = func(an *analysis.Spec, doc *spec.Swagger, args []string) string {
		return opArg(an, doc, args, func(op *spec.Operation) string { return jsonOf(an.SecurityDefinitionsFor(op)) })
	}
	d["SecurityDefinitionsForRequirements"] = func(an *analysis.Spec, doc *spec.Swagger, args []string) string {
		var reqs []analysis.SecurityRequirement
		for _, a := range args {
			reqs = append(reqs, analysis.SecurityRequirement{Name: a})
		}
		return jsonOf(an.SecurityDefinitionsForRequirements(reqs))
	}
}

// checkGetterDrivers verifies that every exported method of *analysis.Spec has a driver.
func checkGetterDrivers() error {
	t := reflect.TypeOf(&analysis.Spec{})
	var missing []string
	for i := 0; i < t.NumMethod(); i++ {
		if _, ok := getterDrivers[t.Method(i).Name]; !ok {
			missing = append(missing, t.Method(i).Name)
		}
	}
	if len(missing) > 0 {
		return fmt.Errorf("public methods of *analysis.Spec without a driver: %v", missing)
	}
	return nil
}

// invoke performs one query; panics are part of the answer (the plain Params variants panic by contract).
func invoke(an *analysis.Spec, doc *spec.Swagger, c Call) (answer string) {
	f, ok := getterDrivers[c.M]
	if !ok {
		panic(infraError{"no driver for method " + c.M})
	}
	defer func() {
		if r := recover(); r != nil {
			if ie, ok := r.(infraError); ok {
				panic(ie)
			}
			if be, ok := r.(simrt.BudgetExceeded); ok {
				panic(be)
			}
			if _, ok := r.(interface{ RuntimeError() }); ok {
				answer = fmt.Sprintf("runtime-panic: %v", r)
				return
			}
			answer = fmt.Sprintf("panic: %v", r)
		}
	}()
	return f(an, doc, c.Args)
}

// allCalls builds a comprehensive call list for a document: every method, with arguments drawn from the
// document's real methods/paths/ids plus absent ones.
func allCalls(doc *spec.Swagger) []Call {
	var calls []Call
	noArg := []string{"AllDefinitionReferences", "AllParameterReferences", "AllResponseReferences", "AllPathItemReferences",
		"AllItemsReferences", "AllReferences", "OperationIDs", "OperationMethodPaths", "RequiredConsumes", "RequiredProduces",
		"RequiredSecuritySchemes", "AllRefs", "SchemasWithAllOf", "AllDefinitions", "ParameterPatterns", "HeaderPatterns",
		"ItemsPatterns", "SchemaPatterns", "AllPatterns", "ParameterEnums", "HeaderEnums", "ItemsEnums", "SchemaEnums", "AllEnums",
		"AllPaths", "Operations"}
	for _, m := range noArg {
		calls = append(calls, Call{M: m})
	}
	type mp struct{ m, p, id string }
	var ops []mp
	if doc.Paths != nil {
		paths := make([]string, 0, len(doc.Paths.Paths))
		for p := range doc.Paths.Paths {
			paths = append(paths, p)
		}
		sort.Strings(paths)
		for _, p := range paths {
			for _, m := range []string{"GET", "PUT", "POST", "DELETE", "OPTIONS", "HEAD", "PATCH"} {
				if op := findOp(doc, m, p); op != nil {
					ops = append(ops, mp{m, p, op.ID})
				}
			}
		}
	}
	ops = append(ops, mp{"GET", "/absent", "absentID"}, mp{"TRACE", "/pets", ""})
	// lookups by operation id are only meaningful (and order-independent) for ids that are unique in the document
	idCount := map[string]int{}
	for _, o := range ops {
		idCount[o.id]++
	}
	for _, o := range ops {
		for _, m := range []string{"OperationFor", "ParamsFor", "SafeParamsFor", "ConsumesFor", "ProducesFor", "SecurityRequirementsFor", "SecurityDefinitionsFor"} {
			calls = append(calls, Call{M: m, Args: []string{o.m, o.p}})
		}
		if o.id != "" && idCount[o.id] == 1 {
			for _, m := range []string{"OperationForName", "ParametersFor", "SafeParametersFor"} {
				calls = append(calls, Call{M: m, Args: []string{o.id}})
			}
		}
	}
	calls = append(calls, Call{M: "SecurityDefinitionsForRequirements", Args: []string{"apiKey", "absent"}})
	return calls
}

func callKey(c Call) string { return c.M + "(" + strings.Join(c.Args, ",") + ")" }

// evalSync is C10: the analyzer handed to Flatten answers like a fresh analysis of the rewritten document.
func evalSync(c *Case, v *Verdict, o *flatObs, si int) {
	fresh := analysis.New(o.Doc)
	v.Evals++
	calls := allCalls(o.Doc)
	v.count("getter_calls_compared", int64(len(calls)))
	for _, call := range calls {
		a := invoke(o.An, o.Doc, call)
		b := invoke(fresh, o.Doc, call)
		if a != b {
			v.fail("C10", "stale-analyzer", call.M, fmt.Sprintf("schedule %d, options %s: %s on the analyzer passed to Flatten = %s ; on a fresh analysis = %s",
				si, c.Opts, callKey(call), truncate(a, 400), truncate(b, 400)))
			return
		}
	}
}
