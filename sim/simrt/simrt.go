// Package simrt is the runtime behind the seams that siminstr inserts into a scratch copy of
// go-openapi/analysis, go-openapi/spec and go-openapi/swag:
//
//   - every `for … range <map>` goes through MapIter*, whose iteration order is decided by the
//     schedule of the current run (seeded, replayable) instead of the Go runtime's random start;
//   - every function entry / loop body of the analysis packages calls Yield, which is a tick of the
//     logical clock and — when a goroutine scheduler is installed (C16) — a scheduling point.
//
// Nothing here uses math/rand, time, goroutines of its own, or an uncontrolled map iteration whose
// order could escape (the one native `range` below feeds a sort).
//
// All mutable global state is touched only inside non-generic //go:norace //go:noinline functions so
// that (a) the race detector never reports the simulator itself and (b) the token hand-off between
// simulated readers creates no happens-before edge (DESIGN.md §3.4).
package simrt

import (
	"os"
	"reflect"
	"runtime"
	"sort"
)

// Policy of one map-iteration site.
const (
	Canonical = 0 // keys in sorted order
	Reverse   = 1
	Rotate    = 2
	Shuffle   = 3
)

// MaxSites bounds the number of instrumented sites (checked by the instrumenter).
const MaxSites = 4096

// Budget exceeded sentinel (panic value): too many logical steps, or a call depth beyond MaxDepth (unbounded
// recursion is cut long before the goroutine stack limit, and deterministically).
type BudgetExceeded struct {
	Steps int64
	Depth int
}

// MaxDepth bounds the depth of nested calls of instrumented functions (legitimate runs stay below a few hundred).
const MaxDepth = 3000

// Config of one simulated run.
type Config struct {
	Seed     uint64
	PerturbP uint32 // 0..256: probability (in 1/256) that a site is perturbed, decided by hash(seed, site)
	// Explicit, when non-nil, overrides the hash-based choice: Explicit[site] is the policy
	// (sites beyond len or with value <0 run canonical).
	Explicit []int8
	// InsertProduce: 0 = entries created during iteration are skipped at canonical sites and
	// coin-flipped at perturbed sites; 1 = never produced; 2 = always produced (at perturbed sites).
	InsertMode int
	Budget     int64
}

// Stats of one simulated run.
type Stats struct {
	Steps         int64
	MapVisits     int64
	Perturbed2    int64 // dynamic visits of a perturbed site that had >= 2 keys
	Fingerprint   uint64
	InsertTaken   int64
	InsertSkipped int64
	DeleteHit     int64
	Yields        int64
	Switches      int64
	SitePerturbed []int32 // per map site: perturbed visits with >= 2 keys
	SiteVisits    []int32 // per map site: visits with >= 2 keys
	MaxDepth      int
	StateMismatch int64   // yield index (1-based) of first state-hash mismatch, 0 if none
	MismatchSite  int32
}

var (
	active     bool
	cfg        Config
	steps      int64
	mapVisits  int64
	perturbed2 int64
	fp         uint64
	insTaken   int64
	insSkipped int64
	delHit     int64
	yields     int64
	visitCnt   [MaxSites]uint32
	sitePert   [MaxSites]int32
	siteVis    [MaxSites]int32
	maxSite    int32
	depth      [65]int // per simulated reader (index token+1; 0 = no scheduler)
	maxDepth   int
)

func mix(a, b uint64) uint64 {
	x := a ^ (b+0x9e3779b97f4a7c15)*0xbf58476d1ce4e5b9
	x ^= x >> 30
	x *= 0xbf58476d1ce4e5b9
	x ^= x >> 27
	x *= 0x94d049bb133111eb
	x ^= x >> 31
	return x
}

// Mix is exported for the harness (same stream everywhere).
func Mix(a, b uint64) uint64 { return mix(a, b) }

// Begin starts a simulated run. Must be called with no reader goroutine running.
//
//go:norace
//go:noinline
func Begin(c Config) {
	cfg = c
	if cfg.Budget <= 0 {
		cfg.Budget = 5_000_000
	}
	steps, mapVisits, perturbed2, insTaken, insSkipped, delHit, yields = 0, 0, 0, 0, 0, 0, 0
	fp = 0xcbf29ce484222325
	for i := range visitCnt {
		visitCnt[i] = 0
		sitePert[i] = 0
		siteVis[i] = 0
	}
	maxSite = 0
	for i := range depth {
		depth[i] = 0
	}
	maxDepth = 0
	sched = nil
	active = true
}

// End stops the run and returns its statistics.
//
//go:norace
//go:noinline
func End() Stats {
	active = false
	st := Stats{Steps: steps, MapVisits: mapVisits, Perturbed2: perturbed2, Fingerprint: fp,
		InsertTaken: insTaken, InsertSkipped: insSkipped, DeleteHit: delHit, Yields: yields, MaxDepth: maxDepth}
	n := int(maxSite) + 1
	st.SitePerturbed = make([]int32, n)
	st.SiteVisits = make([]int32, n)
	copy(st.SitePerturbed, sitePert[:n])
	copy(st.SiteVisits, siteVis[:n])
	if sched != nil {
		st.Switches = sched.switches
		st.StateMismatch = sched.mismatchAt
		st.MismatchSite = sched.mismatchSite
	}
	sched = nil
	return st
}

// Steps returns the logical clock.
//
//go:norace
//go:noinline
func Steps() int64 { return steps }

//go:norace
//go:noinline
func tick() {
	steps++
	if active && steps > cfg.Budget {
		panic(BudgetExceeded{Steps: steps})
	}
}

// visit registers a dynamic visit of map site `site` with n keys; returns the policy and a sub-seed.
//
//go:norace
//go:noinline
func visit(site int, n int) (policy int, sub uint64) {
	steps++
	if !active {
		return Canonical, 0
	}
	if steps > cfg.Budget {
		panic(BudgetExceeded{Steps: steps})
	}
	mapVisits++
	if site < 0 || site >= MaxSites {
		return Canonical, 0
	}
	if int32(site) > maxSite {
		maxSite = int32(site)
	}
	v := visitCnt[site]
	visitCnt[site] = v + 1
	if cfg.Explicit != nil {
		if site < len(cfg.Explicit) && cfg.Explicit[site] > 0 {
			policy = int(cfg.Explicit[site])
		}
	} else if cfg.PerturbP > 0 {
		h := mix(cfg.Seed, uint64(site)+1)
		if uint32(h&0xff) < cfg.PerturbP {
			policy = 1 + int((h>>8)%3)
		}
	}
	sub = mix(mix(cfg.Seed, uint64(site)+0x1000), uint64(v))
	if n >= 2 {
		siteVis[site]++
		if policy != Canonical {
			perturbed2++
			sitePert[site]++
		}
	}
	return policy, sub
}

//go:norace
//go:noinline
func logOrder(site int, orderHash uint64) {
	if !active {
		return
	}
	fp = (fp ^ mix(uint64(site), orderHash)) * 0x100000001b3
}

//go:norace
//go:noinline
func noteInsert(taken bool) {
	if taken {
		insTaken++
	} else {
		insSkipped++
	}
}

//go:norace
//go:noinline
func noteDelete() { delHit++ }

//go:norace
//go:noinline
func insertMode() int { return cfg.InsertMode }

// LogEvent folds an external event (document load, …) into the run fingerprint.
func LogEvent(kind uint64, v uint64) { tick(); logOrder(int(kind)+MaxSites, v) }

// ---------------------------------------------------------------------------------------------
// generic map iterator

// Iter is the state of one instrumented `for … range m`.
type Iter[K comparable, V any] struct {
	m       map[K]V
	keys    []K // iteration order (snapshot, permuted)
	canon   []K // snapshot in canonical order (for membership tests)
	i       int
	site    int
	policy  int
	sub     uint64
	decided []K // keys created during iteration that were already produced or skipped
	coin    uint64
}

func lessAny(a, b any) bool {
	switch x := a.(type) {
	case string:
		return x < b.(string)
	case int:
		return x < b.(int)
	case int64:
		return x < b.(int64)
	case int32:
		return x < b.(int32)
	case uint:
		return x < b.(uint)
	case uint64:
		return x < b.(uint64)
	case uint32:
		return x < b.(uint32)
	case uint8:
		return x < b.(uint8)
	case uint16:
		return x < b.(uint16)
	case int8:
		return x < b.(int8)
	case int16:
		return x < b.(int16)
	case bool:
		return !x && b.(bool)
	case float64:
		return x < b.(float64)
	}
	return lessReflect(reflect.ValueOf(a), reflect.ValueOf(b))
}

func lessReflect(a, b reflect.Value) bool { return cmpReflect(a, b) < 0 }

func cmpReflect(a, b reflect.Value) int {
	if a.Kind() == reflect.Interface {
		if a.IsNil() || b.IsNil() {
			if a.IsNil() && !b.IsNil() {
				return -1
			}
			if !a.IsNil() && b.IsNil() {
				return 1
			}
			return 0
		}
		a, b = a.Elem(), b.Elem()
	}
	if a.Type() != b.Type() {
		as, bs := a.Type().String(), b.Type().String()
		if as < bs {
			return -1
		}
		if as > bs {
			return 1
		}
		return 0
	}
	switch a.Kind() {
	case reflect.String:
		if a.String() < b.String() {
			return -1
		}
		if a.String() > b.String() {
			return 1
		}
		return 0
	case reflect.Int, reflect.Int8, reflect.Int16, reflect.Int32, reflect.Int64:
		if a.Int() < b.Int() {
			return -1
		}
		if a.Int() > b.Int() {
			return 1
		}
		return 0
	case reflect.Uint, reflect.Uint8, reflect.Uint16, reflect.Uint32, reflect.Uint64, reflect.Uintptr:
		if a.Uint() < b.Uint() {
			return -1
		}
		if a.Uint() > b.Uint() {
			return 1
		}
		return 0
	case reflect.Float32, reflect.Float64:
		if a.Float() < b.Float() {
			return -1
		}
		if a.Float() > b.Float() {
			return 1
		}
		return 0
	case reflect.Bool:
		if !a.Bool() && b.Bool() {
			return -1
		}
		if a.Bool() && !b.Bool() {
			return 1
		}
		return 0
	case reflect.Struct:
		for i := 0; i < a.NumField(); i++ {
			if c := cmpReflect(a.Field(i), b.Field(i)); c != 0 {
				return c
			}
		}
		return 0
	case reflect.Array:
		for i := 0; i < a.Len(); i++ {
			if c := cmpReflect(a.Index(i), b.Index(i)); c != 0 {
				return c
			}
		}
		return 0
	}
	// pointers, channels, …: no value-based canonical order exists. The instrumenter refuses such
	// key types for sites whose order can matter; reaching this is an infrastructure error.
	panic("simrt: map key type without canonical order: " + a.Type().String())
}

func hashAny(a any) uint64 {
	switch x := a.(type) {
	case string:
		h := uint64(0xcbf29ce484222325)
		for i := 0; i < len(x); i++ {
			h = (h ^ uint64(x[i])) * 0x100000001b3
		}
		return h
	case int:
		return mix(1, uint64(x))
	}
	return hashReflect(reflect.ValueOf(a))
}

func hashReflect(v reflect.Value) uint64 {
	switch v.Kind() {
	case reflect.String:
		return hashAny(v.String())
	case reflect.Int, reflect.Int8, reflect.Int16, reflect.Int32, reflect.Int64:
		return mix(1, uint64(v.Int()))
	case reflect.Uint, reflect.Uint8, reflect.Uint16, reflect.Uint32, reflect.Uint64, reflect.Uintptr:
		return mix(2, v.Uint())
	case reflect.Bool:
		if v.Bool() {
			return 3
		}
		return 4
	case reflect.Struct:
		h := uint64(5)
		for i := 0; i < v.NumField(); i++ {
			h = mix(h, hashReflect(v.Field(i)))
		}
		return h
	case reflect.Interface:
		if v.IsNil() {
			return 6
		}
		return hashReflect(v.Elem())
	}
	return 7
}

func sortKeys[K comparable](keys []K) {
	if len(keys) < 2 {
		return
	}
	if ks, ok := any(keys).([]string); ok {
		sort.Strings(ks)
		return
	}
	sort.Slice(keys, func(i, j int) bool { return lessAny(keys[i], keys[j]) })
}

func containsSorted[K comparable](canon []K, k K) bool {
	if ks, ok := any(canon).([]string); ok {
		s := any(k).(string)
		i := sort.SearchStrings(ks, s)
		return i < len(ks) && ks[i] == s
	}
	i := sort.Search(len(canon), func(i int) bool { return !lessAny(canon[i], k) })
	return i < len(canon) && canon[i] == k
}

func permute[K comparable](keys []K, policy int, sub uint64) {
	n := len(keys)
	if n < 2 {
		return
	}
	switch policy {
	case Reverse:
		for i, j := 0, n-1; i < j; i, j = i+1, j-1 {
			keys[i], keys[j] = keys[j], keys[i]
		}
	case Rotate:
		r := 1 + int(sub%uint64(n-1))
		tmp := make([]K, n)
		for i := range keys {
			tmp[i] = keys[(i+r)%n]
		}
		copy(keys, tmp)
	case Shuffle:
		s := sub
		for i := n - 1; i > 0; i-- {
			s = mix(s, uint64(i))
			j := int(s % uint64(i+1))
			keys[i], keys[j] = keys[j], keys[i]
		}
	}
}

func newIter[K comparable, V any](m map[K]V, site int) *Iter[K, V] {
	it := &Iter[K, V]{m: m, site: site}
	n := len(m)
	policy, sub := visit(site, n)
	it.policy, it.sub = policy, sub
	if n == 0 {
		return it
	}
	keys := make([]K, 0, n)
	for k := range m { // native order, immediately canonicalised by the sort below
		keys = append(keys, k)
	}
	sortKeys(keys)
	if policy != Canonical {
		it.canon = append([]K(nil), keys...)
		permute(keys, policy, sub)
	} else {
		it.canon = keys
	}
	it.keys = keys
	if n >= 2 {
		var h uint64 = uint64(n)
		for _, k := range keys {
			h = mix(h, hashAny(k))
		}
		logOrder(site, h)
	}
	return it
}

// next advances to the next entry to produce, Go-spec faithfully.
func (it *Iter[K, V]) next() (k K, v V, ok bool) {
	for {
		for it.i < len(it.keys) {
			k = it.keys[it.i]
			it.i++
			if val, present := it.m[k]; present {
				tick()
				return k, val, true
			}
			noteDelete()
		}
		// snapshot exhausted: entries created during the iteration may be produced or skipped
		if len(it.m) == 0 {
			break
		}
		var fresh []K
		for k2 := range it.m { // native order, canonicalised below
			if containsSorted(it.canon, k2) {
				continue
			}
			dup := false
			for _, d := range it.decided {
				if d == k2 {
					dup = true
					break
				}
			}
			if !dup {
				fresh = append(fresh, k2)
			}
		}
		if len(fresh) == 0 {
			break
		}
		sortKeys(fresh)
		mode := insertMode()
		var take []K
		for _, f := range fresh {
			it.decided = append(it.decided, f)
			produce := false
			if it.policy != Canonical && mode != 1 {
				if mode == 2 {
					produce = true
				} else {
					it.coin = mix(it.sub+it.coin, hashAny(f))
					produce = it.coin&1 == 1
				}
			}
			noteInsert(produce)
			if produce {
				take = append(take, f)
			}
		}
		if len(take) == 0 {
			break
		}
		it.keys = append(it.keys, take...)
	}
	var zk K
	var zv V
	return zk, zv, false
}

// MapIter2 backs `for k, v := range m`.
func MapIter2[M ~map[K]V, K comparable, V any](m M, site int) (*Iter[K, V], K, V) {
	var zk K
	var zv V
	return newIter[K, V](m, site), zk, zv
}

// MapIterK backs `for k := range m`.
func MapIterK[M ~map[K]V, K comparable, V any](m M, site int) (*Iter[K, V], K) {
	var zk K
	return newIter[K, V](m, site), zk
}

// MapIterV backs `for _, v := range m`.
func MapIterV[M ~map[K]V, K comparable, V any](m M, site int) (*Iter[K, V], V) {
	var zv V
	return newIter[K, V](m, site), zv
}

// MapIter0 backs `for range m` and the assignment forms.
func MapIter0[M ~map[K]V, K comparable, V any](m M, site int) *Iter[K, V] {
	return newIter[K, V](m, site)
}

func (it *Iter[K, V]) Next2(k *K, v *V) bool {
	kk, vv, ok := it.next()
	if ok {
		*k, *v = kk, vv
	}
	return ok
}

func (it *Iter[K, V]) NextK(k *K) bool {
	kk, _, ok := it.next()
	if ok {
		*k = kk
	}
	return ok
}

func (it *Iter[K, V]) NextV(v *V) bool {
	_, vv, ok := it.next()
	if ok {
		*v = vv
	}
	return ok
}

func (it *Iter[K, V]) Next0() bool {
	_, _, ok := it.next()
	return ok
}

// ---------------------------------------------------------------------------------------------
// reflect-based map iteration (reflect.Value.MapRange / MapKeys)

// ReflectIter replaces *reflect.MapIter.
type ReflectIter struct {
	m    reflect.Value
	keys []reflect.Value
	i    int
	cur  reflect.Value
}

// MapKeys replaces reflect.Value.MapKeys: same set, order decided by the schedule.
func MapKeys(m reflect.Value, site int) []reflect.Value {
	keys := m.MapKeys()
	policy, sub := visit(site, len(keys))
	sort.Slice(keys, func(i, j int) bool { return cmpReflect(keys[i], keys[j]) < 0 })
	permute(keys, policy, sub)
	if len(keys) >= 2 {
		var h uint64 = uint64(len(keys))
		for _, k := range keys {
			h = mix(h, hashReflect(k))
		}
		logOrder(site, h)
	}
	return keys
}

// MapRange replaces reflect.Value.MapRange.
func MapRange(m reflect.Value, site int) *ReflectIter {
	return &ReflectIter{m: m, keys: MapKeys(m, site)}
}

func (it *ReflectIter) Next() bool {
	for it.i < len(it.keys) {
		k := it.keys[it.i]
		it.i++
		if it.m.MapIndex(k).IsValid() {
			it.cur = k
			tick()
			return true
		}
	}
	return false
}

func (it *ReflectIter) Key() reflect.Value   { return it.cur }
func (it *ReflectIter) Value() reflect.Value { return it.m.MapIndex(it.cur) }

// ---------------------------------------------------------------------------------------------
// goroutine scheduler (C16): real goroutines released one at a time by a token; the hand-off spins on
// a plain word inside norace functions so that it creates no happens-before edge.

type schedState struct {
	n            int
	token        int32 // id of the reader allowed to run; -1 = none
	done         []bool
	decisions    []uint8
	cursor       int
	switches     int64
	stateHash    func() uint64
	expect       uint64
	mismatchAt   int64
	mismatchSite int32
	trace        []uint16
}

var sched *schedState

// SchedBegin installs a scheduler for n readers with a pre-drawn decision list. stateHash (may be nil)
// is evaluated at every yield and compared with expect. Call after Begin, before starting readers.
//
//go:norace
//go:noinline
func SchedBegin(n int, decisions []uint8, stateHash func() uint64, expect uint64) {
	sched = &schedState{n: n, token: -1, done: make([]bool, n), decisions: decisions,
		stateHash: stateHash, expect: expect}
}

// SchedStart releases the first reader (chosen by the first decision).
//
//go:norace
//go:noinline
func SchedStart() {
	s := sched
	first := 0
	if len(s.decisions) > 0 {
		first = int(s.decisions[0]) % s.n
		s.cursor = 1
	}
	s.trace = append(s.trace, uint16(first))
	s.token = int32(first)
}

// SchedTrace returns the sequence of reader ids in the order they were given the token.
//
//go:norace
//go:noinline
func SchedTrace() []uint16 {
	if sched == nil {
		return nil
	}
	return append([]uint16(nil), sched.trace...)
}

// ReaderEnter blocks reader id until it holds the token.
//
//go:norace
//go:noinline
func ReaderEnter(id int) {
	s := sched
	for s.token != int32(id) {
		runtime.Gosched()
	}
}

// ReaderExit marks reader id finished and passes the token on.
//
//go:norace
//go:noinline
func ReaderExit(id int) {
	s := sched
	s.done[id] = true
	next := -1
	// next unfinished reader, chosen by the decision list
	var cand [64]int
	nc := 0
	for i := 0; i < s.n && nc < len(cand); i++ {
		if !s.done[i] {
			cand[nc] = i
			nc++
		}
	}
	if nc > 0 {
		d := 0
		if s.cursor < len(s.decisions) {
			d = int(s.decisions[s.cursor])
			s.cursor++
		}
		next = cand[d%nc]
		s.trace = append(s.trace, uint16(next))
	}
	s.token = int32(next)
}

func depthSlot() int {
	if sched != nil && sched.token >= 0 && int(sched.token) < len(depth)-1 {
		return int(sched.token) + 1
	}
	return 0
}

// Enter is the hook at the entry of every instrumented function: a Yield plus call-depth accounting.
//
//go:norace
//go:noinline
func Enter(site int) {
	if active {
		i := depthSlot()
		depth[i]++
		if depth[i] > maxDepth {
			maxDepth = depth[i]
		}
		if depth[i] > MaxDepth {
			panic(BudgetExceeded{Steps: steps, Depth: depth[i]})
		}
	}
	Yield(site)
}

// Leave is deferred at the entry of every instrumented function.
//
//go:norace
//go:noinline
func Leave() {
	if active {
		i := depthSlot()
		if depth[i] > 0 {
			depth[i]--
		}
	}
}

// Yield is a logical-clock tick and, under a scheduler, a scheduling point.
//
//go:norace
//go:noinline
func Yield(site int) {
	steps++
	if !active {
		return
	}
	if steps > cfg.Budget {
		panic(BudgetExceeded{Steps: steps})
	}
	s := sched
	if s == nil || s.token < 0 {
		return
	}
	yields++
	me := s.token
	if s.stateHash != nil && s.mismatchAt == 0 {
		if h := s.stateHash(); h != s.expect {
			s.mismatchAt = yields
			s.mismatchSite = int32(site)
		}
	}
	if s.cursor >= len(s.decisions) {
		return
	}
	d := int(s.decisions[s.cursor])
	s.cursor++
	if d == 0 {
		return
	}
	var cand [64]int
	nc := 0
	for i := 0; i < s.n && nc < len(cand); i++ {
		if !s.done[i] && int32(i) != me {
			cand[nc] = i
			nc++
		}
	}
	if nc == 0 {
		return
	}
	to := cand[(d-1)%nc]
	s.switches++
	s.trace = append(s.trace, uint16(to))
	s.token = int32(to)
	for s.token != me {
		runtime.Gosched()
	}
}

// ---------------------------------------------------------------------------------------------
// self-test mode: SIMRT_SELFTEST="<seed>:<p>" activates a perturbing schedule for the whole process
// (used to run the repository's own test-suite on the instrumented copy; see selftest.sh).
func init() {
	v := os.Getenv("SIMRT_SELFTEST")
	if v == "" {
		return
	}
	var seed uint64
	var p uint32
	i := 0
	for ; i < len(v) && v[i] != ':'; i++ {
		seed = seed*10 + uint64(v[i]-'0')
	}
	for i++; i < len(v); i++ {
		p = p*10 + uint32(v[i]-'0')
	}
	Begin(Config{Seed: seed, PerturbP: p, Budget: 1 << 60})
}
