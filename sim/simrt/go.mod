module simrt

go 1.20
