#!/bin/bash
# selftest.sh preserve      : the repository's own test-suite on the instrumented copy, under canonical and
#                             perturbed schedules, passes exactly what it passes uninstrumented
# selftest.sh determinism   : same VERIF_SEED => byte-identical verdict logs across processes and GOMAXPROCS
# selftest.sh sensitivity   : every mutant in /verif/mutants is caught by the check of its property
set -u
VERIF="$(cd "$(dirname "$0")/.." && pwd)"
export GOFLAGS=-mod=mod GOPROXY=off GOSUMDB=off GOTOOLCHAIN=local
what="${1:-preserve}"
W="$(mktemp -d "${TMPDIR:-/tmp}/verifself.XXXXXX")" || exit 2
trap 'rm -rf "$W"' EXIT
case "$what" in
 preserve)
  "$VERIF/sim/prepare.sh" "$W" yield || exit 2
  rsync -a --exclude='/analysis_test/' --exclude='/.git/' --include='*/' --include='*_test.go' --include='/fixtures/***' --exclude='*' "${VERIF_REPO:-/repo}/" "$W/analysis/" || exit 2
  # reference: the uninstrumented tree
  ref="$(cd "${VERIF_REPO:-/repo}" && go test -vet=off -count=1 . ./internal/... 2>&1 | grep -E '^(--- FAIL|ok|FAIL)' | sed -E 's/[ (]*[0-9.]+s\)?$//' | sort)"
  rc=0
  for st in "" "1:256" "7:128" "99:256" "5:64"; do
    got="$(cd "$W/analysis" && SIMRT_SELFTEST="$st" go test -vet=off -count=1 . ./internal/... 2>&1 | grep -E '^(--- FAIL|ok|FAIL)' | sed -E 's/[ (]*[0-9.]+s\)?$//' | sort)"
    if [ "$got" != "$ref" ]; then
      echo "selftest preserve: schedule '$st' differs from the uninstrumented run:" >&2
      diff <(echo "$ref") <(echo "$got") >&2
      rc=2
    fi
  done
  [ $rc = 0 ] && echo "selftest preserve: ok (instrumented copy passes/fails exactly like the original under 5 schedules)"
  exit $rc
  ;;
 determinism)
  "$VERIF/simctl" build "$W/b" 0 || exit 2
  "$VERIF/simctl" build "$W/r" 1 || exit 2
  props="${2:-C07 C01 C04 C08 C09 C10 C16 C17 C18}"
  rc=0
  for p in $props; do
    prc=0
    B="$W/b"; N=24
    [ "$p" = C16 ] && B="$W/r" && N=12
    for seed in 1 2 3 4 5 6 7 8; do
      ref=""
      for mp in 1 4 16 2; do
        out="$(cd "$B" && GOMAXPROCS=$mp GORACE="halt_on_error=1 exitcode=66" ./simh digest -prop $p -seed $seed -n $N 2>&1)"
        if [ -z "$ref" ]; then ref="$out"; elif [ "$out" != "$ref" ]; then
          echo "selftest determinism: property $p seed $seed diverges at GOMAXPROCS=$mp" >&2; rc=2; prc=2
        fi
      done
    done
    echo "determinism $p: 8 seeds x 4 processes (GOMAXPROCS 1,4,16,2) x $N cases identical: $([ $prc = 0 ] && echo yes || echo NO)"
  done
  exit $rc
  ;;
 sensitivity)
  # every seeded change that lies inside its property's quantifier must be caught by that property's quick check
  rc=0
  for d in "$VERIF"/seeded/*/; do
    inclass="$(python3 -c "import json;print(json.load(open('$d/meta.json')).get('inside_property_quantifier',True))")"
    [ "$inclass" = "True" ] || { echo "skip $(basename "$d") (outside its property's quantifier, see meta.json)"; continue; }
    # (each change was confirmed - builds, suite unchanged, demonstration fails with / passes without - when it was stored)
    res="$(SEEDCHECK_SKIP_CONFIRM="${SEEDCHECK_SKIP_CONFIRM:-1}" "$VERIF/sim/seedcheck.sh" "$d" 2>&1 | tail -1)"
    echo "$(basename "$d"): $res"
    case "$res" in *CAUGHT*) ;; *) rc=1;; esac
  done
  exit $rc
  ;;
 *) echo "usage: selftest.sh preserve|determinism|sensitivity" >&2; exit 2;;
esac
