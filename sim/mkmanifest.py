#!/usr/bin/env python3
"""Regenerates /verif/MANIFEST.json from the table below (kept in one place so that the manifest stays valid)."""
import json, sys, os

V = "/verif"
NA = {
 "C11": "Pure single-threaded function New(doc) of one in-memory document; no schedule, fault, clock, I/O or interleaving can change the reference index, so deterministic simulation has nothing to vary (DESIGN.md §2).",
 "C12": "Pure function of one in-memory document (escaping/unescaping algebra over the name alphabet); input-only property, not a simulation target (DESIGN.md §2).",
 "C13": "Pure function of one in-memory document; the six near-duplicate branches are an input-coverage question with no schedule/fault dimension (DESIGN.md §2).",
 "C14": "Pure lookups over the index built by New; claimed only for unique ids so map order cannot matter; no nondeterminism or faults involved (DESIGN.md §2).",
 "C15": "Pure function of document and arguments; resolution is in-memory via jsonpointer, no loader, no concurrency (DESIGN.md §2).",
 "C19": "Pure in-place transform with no I/O, time, or interleaving; idempotence is a two-element history with no nondeterminism in it (DESIGN.md §2).",
 "C20": "Pure function of (schema, in-memory root); $ref targets are local by the property's own quantifier so not even the loader seam is involved (DESIGN.md §2).",
}

FLAT_NOTE = ("Trusted base: spec model (un)marshalling as normal form; the source-to-source map-iteration rewrite (validated by the repository "
             "test-suite on the instrumented copy, sim/selftest.sh); generator bounds (<=4 documents, <=8 definitions each, depth <=4). Sampling, not proof.")

CHECKS = {
 "C01": ("exploration", "Seeded search over (bundle in W x option set x map-iteration schedule): every successful Flatten output is compared with the input bundle by a bisimulation oracle over the $ref-unfolded documents (independent JSON-level resolver, coinductive on recursive schemas). The simulator's contribution is the order-dependent half (collision/OAIGen/parent choices) — each bundle is flattened under canonical and perturbed schedules.", "§4 C01",
         "deterministic simulation: seeded map-iteration schedules x generated bundles on a simulated disk; bisimulation reference oracle"),
 "C02": ("exploration", "Same runs, Minimal/full: grammar-directed $ref scan of the output (cross-checked by a blind scan): no $ref in parameters/responses/path items/items, every other $ref is '#/definitions/<existing name>' modulo URI/pointer escaping.", "§4 C02",
         "deterministic simulation: seeded schedules x generated bundles; independent $ref scan of the output"),
 "C03": ("exploration", "Same runs, full mode: no inline object-with-properties / allOf / tuple outside top-level definition bodies; created names collide with no other name up to case; existing definitions keep name and meaning.", "§4 C03",
         "deterministic simulation: seeded schedules x generated bundles (names biased towards what Flatten generates); complexity scan + name-set oracle"),
 "C04": ("exploration", "Every Flatten on a generated W bundle, in every option set and under every sampled schedule, must return nil (no error, panic, or logical-step-budget overrun).", "§4 C04",
         "deterministic simulation: seeded schedules x generated W bundles; oracle = returned error / recovered panic / step budget"),
 "C05": ("exploration", "Expand runs: remaining $refs are local existing definitions, meaning preserved (C01 oracle), and for bundles whose $ref graph is acyclic (independent cycle detector) no $ref remains and the bytes are identical across >=4 schedules.", "§4 C05",
         "deterministic simulation: seeded schedules x generated bundles; cycle oracle + cross-schedule byte equality"),
 "C06": ("exploration", "RemoveUnused runs over the full name alphabet: parameters/responses empty, every remaining definition used, no dangling $ref, operations unchanged (C01 oracle), termination judged on the logical step budget.", "§4 C06",
         "deterministic simulation: seeded schedules x generated bundles with exotic names and removal chains; use-count oracle + logical step budget"),
 "C07": ("exploration", "Core: each (bundle, options) is flattened under a canonical schedule, N seeded permutations of every map iteration in analysis+spec+swag (incl. produce/skip of entries inserted during range) and key-order-permuted files; outputs must be byte-identical and outcomes equal. Failing cases are minimised to the set of sites whose order matters.", "§3.2, §4 C07",
         "deterministic simulation: seeded permutation of every map iteration (the code's only scheduler) + JSON key-order histories; byte-equality across schedules"),
 "C08": ("exploration", "Two-call histories: after a successful Minimal/full Flatten the same document is flattened again (a) with the same Spec object and (b) reloaded with a fresh analyzer, with the auxiliary files removed from the simulated disk and a different schedule; must succeed and leave the bytes unchanged.", "§4 C08",
         "deterministic simulation: two-step history with emptied simulated disk and perturbed schedules; byte-equality oracle"),
 "C10": ("exploration", "After every successful Flatten, every public getter of the Spec that was passed in is compared with a fresh analysis of the rewritten document (method set enumerated by reflection; pointer identity of returned operations included).", "§4 C10",
         "deterministic simulation: state carried across the call under seeded schedules; stale-vs-fresh getter surface comparison"),
 "C09": ("fault_enumeration", "W and W+ bundles; fault-free pass counts the loads L, then every k in 1..L x every fault kind (enoent, eio, enoent-from, dead path, short read, torn) is injected at the spec.PathLoader seam: Flatten/New/Schema must terminate without panic/crash/step-overrun and Flatten must report an error when a needed document could not be loaded or a $ref cannot be resolved. Fatal crashes are attributed through a worker subprocess.", "§3.3, §4 C09",
         "deterministic simulation with fault injection at the document-loader seam: exhaustive enumeration of fault position x kind per sampled bundle"),
 "C16": ("exploration", "Real reader goroutines over one shared Spec released one at a time by a replayable decision list (race detector kept effective by an HB-free hand-off); state hash checked at every yield, every answer compared with a sequential run, returned maps mutated and re-queried.", "§3.4, §4 C16",
         "deterministic simulation: seeded, replayable interleavings of reader goroutines under -race; immutability invariant at every yield"),
 "C17": ("exploration", "Mixin histories (primary + 0..3 mixins, one call or successive calls) over small key pools, every optional part present/absent; merged document and collision multiset compared with an executable reference model of the documented rules under canonical and perturbed map schedules; no panic for any presence pattern.", "§4 C17",
         "deterministic simulation: mixin histories folded onto a shared mutable primary under seeded map schedules; executable reference model"),
 "C18": ("exploration", "Same histories under C18's precondition: ids pairwise distinct over all seven methods, changed only by a Mixin<N> suffix and only on collision, id-less operations untouched — under every sampled iteration order of the mixin's path map.", "§4 C18",
         "deterministic simulation: seeded map schedules decide which operation is renamed; reference predicate on operation ids"),
}

def main():
    claimed = [a for a in sys.argv[1:]] or sorted(CHECKS)
    checks = []
    for pid in sorted(claimed):
        level, text, ref, tech = CHECKS[pid]
        checks.append({
            "property_id": pid,
            "quick_cmd": f"{V}/simctl check {pid} --tier quick",
            "thorough_cmd": f"{V}/simctl check {pid} --tier thorough",
            "evidence_file": f"{V}/evidence/{pid}.json",
            "replay_cmd_template": f"{V}/simctl replay {{path}}",
            "engine": "simh",
            "level_claimed": {"category": level, "text": text, "design_ref": "DESIGN.md " + ref},
            "level_note": FLAT_NOTE,
            "technique": tech,
        })
    na = [{"property_id": k, "reason": v} for k, v in sorted(NA.items())]
    for pid in sorted(CHECKS):
        if pid not in claimed:
            na.append({"property_id": pid, "reason": "check not built yet in this revision (claimed in DESIGN.md; will be registered once its quick tier passes on the unchanged tree)"})
    m = {
        "version": 1,
        "setup_cmd": f"{V}/sim/setup.sh",
        "hooks": {
            "guard": "verifsim",
            "enable": "there is nothing to enable and nothing to switch off in /repo (no hook, no build tag in its sources): no hook lives in /repo: each check copies the current /repo working tree (plus spec/swag from the module cache) into a mktemp scratch directory and inserts the seams source-to-source there (sim/prepare.sh + sim/siminstr); the tag only names the scratch build",
            "baseline_off_cmd": "cd /repo && export GOFLAGS=-mod=mod GOPROXY=off GOSUMDB=off GOTOOLCHAIN=local && go test -json -vet=off -count=1 -timeout 25m ./... ; (cd analysis_test && go test -json -vet=off -count=1 -timeout 25m ./...) ; git -C /repo checkout -- analysis_test/go.mod analysis_test/go.sum",
            "source_commits": [],
            "add_only": True,
        },
        "engines": [{"name": "simh", "path": f"{V}/sim", "serves_properties": sorted(claimed),
                     "kind_free_text": "deterministic simulator: source-to-source seam insertion (siminstr), seeded map-iteration/goroutine scheduler and logical clock (simrt), simulated disk with fault injection, reference oracles, minimiser and replay (harness)"}],
        "checks": checks,
        "not_applicable": na,
        "notes": "Exit codes of every command: 0 held (KNOWN-FINDING lines allowed), 1 VIOLATION, 2 could not decide (infrastructure). Known findings: /verif/known-findings.json. Replays: /verif/replays.",
    }
    json.dump(m, open(f"{V}/MANIFEST.json", "w"), indent=1)
    print("wrote MANIFEST.json with", len(checks), "checks,", len(na), "not_applicable")

main()
