#!/usr/bin/env python3
"""Regenerates the table of seeded changes in DESIGN.md §11.6 from seeded/*/meta.json (between the seedtable markers)."""
import json, glob, os, re
V = os.path.dirname(os.path.dirname(os.path.abspath(__file__)))
rows = []
def key(d):
    b = os.path.basename(d); p, w = b.split("-w"); return (p, int(w))
for d in sorted(glob.glob(f"{V}/seeded/C*-w*"), key=key):
    m = json.load(open(f"{d}/meta.json"))
    def cell(s, n):
        s = " ".join(str(s).split()).replace("|", "\\|")
        return s if len(s) <= n else s[:n] + "…"
    caught = m.get("caught_by", "?")
    if not m.get("inside_property_quantifier", True):
        caught = "none (outside W)"
    elif m.get("check_with") and m.get("check_with") != m["property"]:
        caught = f"{m['property']} (on base {m.get('base_commit','?')}) and {m['check_with']} (on HEAD)"
    rows.append(f"| {os.path.basename(d)} | {cell(m.get('summary',''),160)} | {caught} | {cell(m.get('note',''),300)} |")
table = "| seed | change (agent's summary, shortened) | caught by | history |\n|------|------|------|------|\n" + "\n".join(rows) + "\n"
p = f"{V}/DESIGN.md"
s = open(p).read()
b, e = "<!-- seedtable:begin -->\n", "<!-- seedtable:end -->\n"
i, j = s.index(b) + len(b), s.index(e)
open(p, "w").write(s[:i] + table + s[j:])
inside = sum(1 for d in glob.glob(f"{V}/seeded/C*-w*") if json.load(open(f"{d}/meta.json")).get("inside_property_quantifier", True))
print(len(rows), "rows;", inside, "inside the quantifier")
