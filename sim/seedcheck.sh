#!/bin/bash
# seedcheck.sh <seed-dir> [check-args…]
#   <seed-dir> holds patch.diff, a *_test.go demonstration and meta.json (property).
# 1. confirms in a scratch worktree of /repo: builds, existing suite unchanged, demo fails with / passes without
# 2. runs the registered check of that property against the patched worktree (VERIF_REPO), never against /repo
# Prints a one-line verdict; removes the worktree.
set -u
VHOME="$(cd "$(dirname "$0")/.." && pwd)"
SD="$(cd "$1" && pwd)"; shift
export GOFLAGS=-mod=mod GOPROXY=off GOSUMDB=off GOTOOLCHAIN=local
PROP="$(python3 -c "import json;print(json.load(open('$SD/meta.json'))['property'])")"
# on the repaired tree some seeded changes surface under another property (see meta.json note)
CHECK="$(python3 -c "import json;m=json.load(open('$SD/meta.json'));print(m.get('check_with',m['property']))")"
WT="$(mktemp -d /tmp/seedwt.XXXXXX)"; rmdir "$WT"
# meta.json "check_on_base": true — a later repair of /repo has removed the very code the change touched (or made the same slip
# harmless): the change is then checked against the commit it was written for, with its original patch
BASE_REV="$(python3 -c "import json;m=json.load(open('$SD/meta.json'));print(m['base_commit'] if m.get('check_on_base') else 'HEAD')")"
git -C /repo worktree add -q --detach "$WT" "$BASE_REV" || exit 2
cleanup() { git -C /repo worktree remove --force "$WT" >/dev/null 2>&1; rm -rf "$WT"; }
trap cleanup EXIT
# SEEDCHECK_SKIP_CONFIRM=1: the change was confirmed when it was stored (meta.json: confirmed_by_me); only apply it and run the check
if [ "${SEEDCHECK_SKIP_CONFIRM:-}" = 1 ]; then
  PATCH="$SD/patch.diff"; [ -f "$SD/patch-rebased.diff" ] && [ "$BASE_REV" = HEAD ] && PATCH="$SD/patch-rebased.diff"
  git -C "$WT" apply "$PATCH" || { echo "SEED $PROP: patch does not apply"; exit 2; }
  (cd "$WT" && go build ./...) || { echo "SEED $PROP: does not build"; exit 2; }
  out="$(VERIF_REPO="$WT" "$VHOME/simctl" check "$CHECK" --tier "${SEED_TIER:-quick}" "$@" 2>&1)"; rc=$?
  echo "$out" | grep -E '^(VIOLATION|  clause|simh:)' | cut -c1-400
  git -C "$VHOME" checkout -q -- "evidence/$CHECK.json" 2>/dev/null
  rm -f "$VHOME"/replays/"$CHECK"-*-????????????????.json
  case $rc in 1) echo "SEED $PROP: CAUGHT";; 0) echo "SEED $PROP: MISSED";; *) echo "SEED $PROP: check exit $rc (infrastructure)"; echo "$out" | tail -5;; esac
  exit 0
fi
suite() { (cd "$WT" && go test -vet=off -count=1 . ./internal/... 2>&1 | grep -E '^(--- FAIL|ok|FAIL)' | grep -v seeded | sed -E 's/[ (]*[0-9.]+s\)?$//' | sort); }
BASE="$(suite)"
DEMO="$(ls "$SD"/*_test.go 2>/dev/null | head -1)"
if [ -z "$DEMO" ]; then
  # demonstrations are stored as *_test.go.txt under /verif/seeded so that Go tooling ignores them
  T="$(ls "$SD"/*_test.go.txt | head -1)"; DEMO="$(mktemp -d)/$(basename "${T%.txt}")"; cp "$T" "$DEMO"
fi
DEMONAME="$(grep -oE 'func (Test[A-Za-z0-9_]+)' "$DEMO" | awk '{print $2}' | paste -sd'|')"
RACE=""; grep -q '"property": *"C16"' "$SD/meta.json" && RACE="-race"
cp "$DEMO" "$WT/"
without="$(cd "$WT" && go test -vet=off -count=1 $RACE -run "^($DEMONAME)\$" . 2>&1 | tail -1)"
PATCH="$SD/patch.diff"
# a later repair of /repo may have rewritten the very lines a seeded change touches: a hand-rebased equivalent is used then
[ -f "$SD/patch-rebased.diff" ] && [ "$BASE_REV" = HEAD ] && PATCH="$SD/patch-rebased.diff"
git -C "$WT" apply "$PATCH" || { echo "SEED $PROP: patch does not apply"; exit 2; }
(cd "$WT" && go build ./...) || { echo "SEED $PROP: does not build"; exit 2; }
rm -f "$WT/$(basename "$DEMO")"
WITH="$(suite)"
cp "$DEMO" "$WT/"
with="$(cd "$WT" && go test -vet=off -count=1 $RACE -run "^($DEMONAME)\$" . 2>&1 | tail -1)"
rm -f "$WT/$(basename "$DEMO")"
git -C "$WT" checkout -q -- go.mod go.sum 2>/dev/null
suite_ok=no; [ "$BASE" = "$WITH" ] && suite_ok=yes
demo_ok=no; case "$without" in ok*) case "$with" in FAIL*|*FAIL*) demo_ok=yes;; esac;; esac
echo "SEED $PROP confirm: suite_unchanged=$suite_ok demo_fails_with=$([[ "$with" == *FAIL* ]] && echo yes || echo no) demo_passes_without=$([[ "$without" == ok* ]] && echo yes || echo no)"
[ "${SEEDCHECK_CONFIRM_ONLY:-}" = 1 ] && exit 0
out="$(VERIF_REPO="$WT" "$VHOME/simctl" check "$CHECK" --tier "${SEED_TIER:-quick}" "$@" 2>&1)"; rc=$?
echo "$out" | grep -E '^(VIOLATION|  clause|simh:)' | cut -c1-400
# evidence/replays written by this run belong to the patched tree: restore the committed ones
git -C "$VHOME" checkout -q -- "evidence/$CHECK.json" 2>/dev/null
case $rc in 1) echo "SEED $PROP: CAUGHT";; 0) echo "SEED $PROP: MISSED";; *) echo "SEED $PROP: check exit $rc (infrastructure)"; echo "$out" | tail -5;; esac
