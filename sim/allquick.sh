#!/bin/bash
# allquick.sh [seed…] : every registered quick check on the current /repo tree, for each seed; one summary line each.
cd "$(dirname "$0")/.."
seeds="${*:-1}"
rc=0
for s in $seeds; do
  for p in C01 C02 C03 C04 C05 C06 C07 C08 C09 C10 C16 C17 C18; do
    out="$(VERIF_SEED=$s ./simctl check $p --tier quick 2>&1)"; e=$?
    echo "seed=$s $p exit=$e $(echo "$out" | grep -E '^simh:' | sed 's/^simh: //' | cut -c1-150)"
    if [ $e != 0 ]; then rc=1; echo "$out" | grep -E -A1 '^(VIOLATION|simh: INFRA|simctl)' | cut -c1-400; fi
  done
done
exit $rc
