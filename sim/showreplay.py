#!/usr/bin/env python3
import json,sys
for f in sys.argv[1:]:
    c=json.load(open(f))
    print("=====",f,c.get('opts'),c.get('clause'),'api=',c.get('api'),'faults=',c.get('faults'))
    print(c.get('detail','')[:500])
    for p,d in (c.get('disk') or {}).items():
        print(p); print(d)
    for k in ('primary','doc'):
        if c.get(k): print(k, c[k])
    for m in c.get('mixins') or []: print('mixin',m)
    print('schedules',c.get('schedules'))
    if c.get('readers'): print('readers',c['readers'],'decisions',c.get('decisions'))
