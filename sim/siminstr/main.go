// siminstr inserts the simulation seams into a scratch copy of the code under test (never /repo):
//
//	for k, v := range <map>   ->  for _simitN, k, v := _simrt.MapIter2(m, SITE); _simitN.Next2(&k, &v); {
//	x.MapRange() / x.MapKeys() (reflect.Value) -> _simrt.MapRange(x, SITE) / _simrt.MapKeys(x, SITE)
//	function bodies and loop bodies (only in -yield packages) get `_simrt.Yield(SITE);` as first statement
//
// The rewrite is type-directed (go/packages + go/types) and done by splicing text at byte offsets so that
// everything else in the file — line numbers, comments, directives — stays byte-identical.
//
// usage: siminstr -dir <module dir to load from> -out <sites.json> -yield <pkgpath-prefix> <patterns...>
//
// Any map iteration form it does not recognise makes it exit 2 (never a silent uncontrolled source).
package main

import (
	"encoding/json"
	"flag"
	"fmt"
	"go/ast"
	"go/token"
	"go/types"
	"os"
	"path/filepath"
	"sort"
	"strings"

	"golang.org/x/tools/go/packages"
)

type splice struct {
	start, end int // byte offsets; end == start for pure insertion
	text       string
}

type siteTable struct {
	MapSites   []string `json:"map_sites"`
	YieldSites []string `json:"yield_sites"`
	// Hazard: key types per site, for information
	KeyTypes []string `json:"key_types"`
}

var (
	tab     siteTable
	fatal   []string
	itCount int
)

func fail(format string, a ...any) {
	fatal = append(fatal, fmt.Sprintf(format, a...))
}

func main() {
	dir := flag.String("dir", ".", "module directory to load packages from")
	out := flag.String("out", "sites.json", "site table output")
	yieldPrefix := flag.String("yield", "", "package path prefix whose functions/loops get Yield calls")
	flag.Parse()
	patterns := flag.Args()
	if len(patterns) == 0 {
		fmt.Fprintln(os.Stderr, "siminstr: no patterns")
		os.Exit(2)
	}

	conf := &packages.Config{
		Mode: packages.NeedName | packages.NeedFiles | packages.NeedCompiledGoFiles | packages.NeedSyntax |
			packages.NeedTypes | packages.NeedTypesInfo | packages.NeedImports,
		Dir:   *dir,
		Tests: false,
		Env:   os.Environ(),
	}
	pkgs, err := packages.Load(conf, patterns...)
	if err != nil {
		fmt.Fprintln(os.Stderr, "siminstr: load:", err)
		os.Exit(2)
	}
	bad := false
	for _, p := range pkgs {
		for _, e := range p.Errors {
			fmt.Fprintf(os.Stderr, "siminstr: %s: %v\n", p.PkgPath, e)
			bad = true
		}
	}
	if bad {
		os.Exit(2)
	}
	sort.Slice(pkgs, func(i, j int) bool { return pkgs[i].PkgPath < pkgs[j].PkgPath })

	for _, p := range pkgs {
		doYield := *yieldPrefix != "" && strings.HasPrefix(p.PkgPath, *yieldPrefix)
		for i, f := range p.Syntax {
			fname := p.CompiledGoFiles[i]
			if strings.HasSuffix(fname, "_test.go") {
				continue
			}
			instrumentFile(p, f, fname, doYield)
		}
	}
	if len(fatal) > 0 {
		for _, m := range fatal {
			fmt.Fprintln(os.Stderr, "siminstr: REFUSED:", m)
		}
		os.Exit(2)
	}
	if len(tab.MapSites) > 4000 {
		fmt.Fprintln(os.Stderr, "siminstr: too many map sites")
		os.Exit(2)
	}
	b, _ := json.MarshalIndent(tab, "", " ")
	if err := os.WriteFile(*out, b, 0o644); err != nil {
		fmt.Fprintln(os.Stderr, "siminstr:", err)
		os.Exit(2)
	}
	fmt.Fprintf(os.Stderr, "siminstr: %d map sites, %d yield sites in %d packages\n", len(tab.MapSites), len(tab.YieldSites), len(pkgs))
}

func shortPkg(path string) string {
	path = strings.TrimPrefix(path, "github.com/go-openapi/")
	return path
}

func isMap(t types.Type) (*types.Map, bool) {
	if t == nil {
		return nil, false
	}
	u := t.Underlying()
	if m, ok := u.(*types.Map); ok {
		return m, true
	}
	if tp, ok := t.(*types.TypeParam); ok {
		// core type of a type parameter
		if iface, ok := tp.Constraint().Underlying().(*types.Interface); ok {
			var mt *types.Map
			okAll := iface.NumEmbeddeds() > 0
			for i := 0; i < iface.NumEmbeddeds(); i++ {
				et := iface.EmbeddedType(i)
				if un, ok := et.(*types.Union); ok {
					for j := 0; j < un.Len(); j++ {
						if m, ok := un.Term(j).Type().Underlying().(*types.Map); ok {
							mt = m
						} else {
							okAll = false
						}
					}
				} else if m, ok := et.Underlying().(*types.Map); ok {
					mt = m
				} else {
					okAll = false
				}
			}
			if mt != nil && okAll {
				return mt, true
			}
			if mt != nil {
				fail("type parameter %s mixes map and non-map terms", tp)
			}
		}
	}
	return nil, false
}

func keyOrderable(t types.Type) bool {
	switch u := t.Underlying().(type) {
	case *types.Basic:
		return u.Info()&(types.IsString|types.IsInteger|types.IsFloat|types.IsBoolean) != 0
	case *types.Struct:
		for i := 0; i < u.NumFields(); i++ {
			if !keyOrderable(u.Field(i).Type()) {
				return false
			}
		}
		return true
	case *types.Array:
		return keyOrderable(u.Elem())
	case *types.Interface:
		// dynamic key types: ordered at run time by simrt's reflective compare, which panics (infrastructure
		// error, never a verdict) if a dynamic key type has no value-based order (pointer, channel)
		return true
	}
	return false
}

func instrumentFile(p *packages.Package, f *ast.File, fname string, doYield bool) {
	src, err := os.ReadFile(fname)
	if err != nil {
		fail("%s: %v", fname, err)
		return
	}
	fset := p.Fset
	off := func(pos token.Pos) int { return fset.Position(pos).Offset }
	base := shortPkg(p.PkgPath) + "/" + filepath.Base(fname)
	var splices []splice

	// enclosing function names for site naming
	type fnRange struct {
		name     string
		pos, end token.Pos
	}
	var fns []fnRange
	for _, d := range f.Decls {
		if fd, ok := d.(*ast.FuncDecl); ok && fd.Body != nil {
			name := fd.Name.Name
			if fd.Recv != nil && len(fd.Recv.List) > 0 {
				name = types.ExprString(fd.Recv.List[0].Type) + "." + name
			}
			fns = append(fns, fnRange{name, fd.Pos(), fd.End()})
		}
	}
	fnOf := func(pos token.Pos) string {
		for _, fr := range fns {
			if pos >= fr.pos && pos < fr.end {
				return fr.name
			}
		}
		return "<file>"
	}
	perFn := map[string]int{}
	newMapSite := func(pos token.Pos, keyT types.Type) int {
		fn := fnOf(pos)
		perFn[fn]++
		name := fmt.Sprintf("%s:%s#%d", base, fn, perFn[fn])
		tab.MapSites = append(tab.MapSites, name)
		tab.KeyTypes = append(tab.KeyTypes, keyT.String())
		return len(tab.MapSites) - 1
	}
	perFnY := map[string]int{}
	newYieldSite := func(pos token.Pos) int {
		fn := fnOf(pos)
		perFnY[fn]++
		tab.YieldSites = append(tab.YieldSites, fmt.Sprintf("%s:%s@%d", base, fn, perFnY[fn]))
		return len(tab.YieldSites) - 1
	}

	text := func(n ast.Node) string { return string(src[off(n.Pos()):off(n.End())]) }

	ast.Inspect(f, func(n ast.Node) bool {
		switch x := n.(type) {
		case *ast.RangeStmt:
			t := p.TypesInfo.TypeOf(x.X)
			mt, ok := isMap(t)
			if !ok {
				// ranging over a pointer to array etc. is fine; functions (range-over-func) cannot occur at go1.20
				break
			}
			if !keyOrderable(mt.Key()) {
				fail("%s: range over map with key type %s (no canonical order)", fset.Position(x.Pos()), mt.Key())
				break
			}
			// the range expression must not itself contain a range statement (func literal)
			nested := false
			ast.Inspect(x.X, func(m ast.Node) bool {
				if _, ok := m.(*ast.RangeStmt); ok {
					nested = true
				}
				return true
			})
			if nested {
				fail("%s: range expression contains a nested range", fset.Position(x.Pos()))
				break
			}
			site := newMapSite(x.Pos(), mt.Key())
			itCount++
			it := fmt.Sprintf("_simit%d", itCount)
			hasK := x.Key != nil && !isBlank(x.Key)
			hasV := x.Value != nil && !isBlank(x.Value)
			mexpr := text(x.X)
			var hdr string
			switch {
			case x.Tok == token.DEFINE && hasK && hasV:
				hdr = fmt.Sprintf("for %s, %s, %s := _simrt.MapIter2(%s, %d); %s.Next2(&%s, &%s); ", it, text(x.Key), text(x.Value), mexpr, site, it, text(x.Key), text(x.Value))
			case x.Tok == token.DEFINE && hasK:
				hdr = fmt.Sprintf("for %s, %s := _simrt.MapIterK(%s, %d); %s.NextK(&%s); ", it, text(x.Key), mexpr, site, it, text(x.Key))
			case x.Tok == token.DEFINE && hasV:
				hdr = fmt.Sprintf("for %s, %s := _simrt.MapIterV(%s, %d); %s.NextV(&%s); ", it, text(x.Value), mexpr, site, it, text(x.Value))
			case !hasK && !hasV:
				hdr = fmt.Sprintf("for %s := _simrt.MapIter0(%s, %d); %s.Next0(); ", it, mexpr, site, it)
			case x.Tok == token.ASSIGN:
				// assignment form: operands must be addressable and of exactly the key/value types
				okTypes := true
				if hasK && !types.Identical(p.TypesInfo.TypeOf(x.Key), mt.Key()) {
					okTypes = false
				}
				if hasV && !types.Identical(p.TypesInfo.TypeOf(x.Value), mt.Elem()) {
					okTypes = false
				}
				if !okTypes {
					fail("%s: range with '=' to operands of a different type", fset.Position(x.Pos()))
					break
				}
				switch {
				case hasK && hasV:
					hdr = fmt.Sprintf("for %s := _simrt.MapIter0(%s, %d); %s.Next2(&%s, &%s); ", it, mexpr, site, it, text(x.Key), text(x.Value))
				case hasK:
					hdr = fmt.Sprintf("for %s := _simrt.MapIter0(%s, %d); %s.NextK(&%s); ", it, mexpr, site, it, text(x.Key))
				default:
					hdr = fmt.Sprintf("for %s := _simrt.MapIter0(%s, %d); %s.NextV(&%s); ", it, mexpr, site, it, text(x.Value))
				}
			default:
				fail("%s: unrecognised range form", fset.Position(x.Pos()))
			}
			if hdr != "" {
				splices = append(splices, splice{off(x.For), off(x.Body.Lbrace), hdr})
			}
		case *ast.CallExpr:
			sel, ok := x.Fun.(*ast.SelectorExpr)
			if !ok {
				break
			}
			if sel.Sel.Name != "MapRange" && sel.Sel.Name != "MapKeys" {
				break
			}
			rt := p.TypesInfo.TypeOf(sel.X)
			if rt == nil || rt.String() != "reflect.Value" {
				break
			}
			// keys of arbitrary type: order falls back on reflection compare (panics on pointers at run time)
			perFn[fnOf(x.Pos())]++
			name := fmt.Sprintf("%s:%s#%d", base, fnOf(x.Pos()), perFn[fnOf(x.Pos())])
			tab.MapSites = append(tab.MapSites, name)
			tab.KeyTypes = append(tab.KeyTypes, "reflect")
			site := len(tab.MapSites) - 1
			splices = append(splices, splice{off(x.Pos()), off(x.End()),
				fmt.Sprintf("_simrt.%s(%s, %d)", sel.Sel.Name, text(sel.X), site)})
		case *ast.SelectorExpr:
			// explicit mention of the type reflect.MapIter cannot be retyped by a text splice
			if id, ok := x.X.(*ast.Ident); ok && id.Name == "reflect" && x.Sel.Name == "MapIter" {
				if pn, ok := p.TypesInfo.Uses[id].(*types.PkgName); ok && pn.Imported().Path() == "reflect" {
					// retype: *reflect.MapIter -> *_simrt.ReflectIter (same method set: Next, Key, Value)
					splices = append(splices, splice{off(x.Pos()), off(x.End()), "_simrt.ReflectIter"})
				}
			}
		}
		return true
	})

	if doYield {
		ast.Inspect(f, func(n ast.Node) bool {
			var body *ast.BlockStmt
			isFunc := false
			switch x := n.(type) {
			case *ast.FuncDecl:
				body, isFunc = x.Body, true
			case *ast.FuncLit:
				body, isFunc = x.Body, true
			case *ast.ForStmt:
				body = x.Body
			case *ast.RangeStmt:
				body = x.Body
			}
			if body != nil {
				site := newYieldSite(body.Lbrace)
				hook := fmt.Sprintf(" _simrt.Yield(%d);", site)
				if isFunc {
					// function entry: tick + call-depth accounting (unbounded recursion is cut deterministically)
					hook = fmt.Sprintf(" _simrt.Enter(%d); defer _simrt.Leave();", site)
				}
				splices = append(splices, splice{off(body.Lbrace) + 1, off(body.Lbrace) + 1, hook})
			}
			return true
		})
	}

	if len(splices) == 0 {
		return
	}
	// import: same line as the package clause, so that line numbers do not move
	pkgEnd := off(f.Name.End())
	splices = append(splices, splice{pkgEnd, pkgEnd, `; import _simrt "simrt"`})

	sort.SliceStable(splices, func(i, j int) bool {
		if splices[i].start != splices[j].start {
			return splices[i].start < splices[j].start
		}
		return splices[i].end < splices[j].end
	})
	var b strings.Builder
	cur := 0
	for _, s := range splices {
		if s.start < cur {
			fail("%s: overlapping rewrites at offset %d", fname, s.start)
			return
		}
		b.Write(src[cur:s.start])
		b.WriteString(s.text)
		cur = s.end
	}
	b.Write(src[cur:])
	if err := os.WriteFile(fname, []byte(b.String()), 0o644); err != nil {
		fail("%s: %v", fname, err)
	}
}

func isBlank(e ast.Expr) bool {
	id, ok := e.(*ast.Ident)
	return ok && id.Name == "_"
}
