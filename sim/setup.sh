#!/bin/bash
# setup: build the instrumenter from files on disk, warm the Go build cache (incl. -race std) with one
# instrumented build, and run the instrumenter's semantic-preservation self-test. Offline.
set -u
VERIF="$(cd "$(dirname "$0")/.." && pwd)"
export GOFLAGS=-mod=mod GOPROXY=off GOSUMDB=off GOTOOLCHAIN=local
mkdir -p "$VERIF/bin" "$VERIF/evidence" "$VERIF/replays"
(cd "$VERIF" && go build -o bin/siminstr ./sim/siminstr) || { echo "setup: cannot build siminstr" >&2; exit 2; }
W="$(mktemp -d "${TMPDIR:-/tmp}/verifsetup.XXXXXX")" || exit 2
trap 'rm -rf "$W"' EXIT
"$VERIF/simctl" build "$W/plain" 0 || exit 2
"$W/plain/simh" selfcheck || exit 2
"$VERIF/simctl" build "$W/race" 1 || exit 2
"$VERIF/sim/selftest.sh" preserve || exit 2
echo "setup: ok"
